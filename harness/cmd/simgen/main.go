// simgen generates a `go build -overlay` file that instruments SharedCode/sop for the
// deterministic simulator without touching /repo.
//
// usage: simgen -repo /repo -src /verif/harness/overlaysrc -out <dir>
//
// It must be run with cwd=/repo and GOFLAGS/GOWORK unset (the source importer then
// resolves imports in /repo's own workspace mode, read-only).
//
// Rewrites (all are no-ops at run time while the Sim* hooks are nil):
//  1. prepend a guarded hook call to: sop.Sleep, sop.Retry, sop.NewTaskRunner,
//     (*TaskRunner).Go/Wait, fs.newFileIO, (*fs.TransactionLog).Add, cache.GetGlobalL1Cache
//  2. selector replacement: time.Now/Since/Sleep -> sop clock in cache, common, fs;
//     os.Create/Open/Remove -> fs.SimOs* in fs/transactionlog.go and fs/storerepository.copier.go
//  3. `range m` over a map -> `range sop.SimOrdered(m)` in cache, common, fs
//  4. add zz_sim.go to sop, cache, common, fs
package main

import (
	"crypto/sha256"
	"encoding/hex"
	"encoding/json"
	"flag"
	"fmt"
	"go/ast"
	"go/importer"
	"go/parser"
	"go/token"
	"go/types"
	"os"
	"path/filepath"
	"sort"
	"strings"
)

type edit struct {
	off, del int
	ins      string
}

type fileEdits struct {
	path  string
	src   []byte
	edits []edit
	tail  string
}

var (
	repo   = flag.String("repo", "/repo", "repository root")
	srcDir = flag.String("src", "", "overlaysrc directory")
	outDir = flag.String("out", "", "output directory")
)

func fatal(format string, a ...any) {
	fmt.Fprintf(os.Stderr, "simgen: "+format+"\n", a...)
	os.Exit(2)
}

type pkgSpec struct {
	dir       string // relative to repo
	name      string
	typecheck bool
	zz        string // template file
}

func main() {
	flag.Parse()
	if *srcDir == "" || *outDir == "" {
		fatal("need -src and -out")
	}
	if err := os.MkdirAll(*outDir, 0o755); err != nil {
		fatal("%v", err)
	}
	pkgs := []pkgSpec{
		{".", "sop", false, "sop_zz_sim.go.txt"},
		{"cache", "cache", true, "cache_zz_sim.go.txt"},
		{"common", "common", true, "common_zz_sim.go.txt"},
		{"fs", "fs", true, "fs_zz_sim.go.txt"},
	}
	overlay := map[string]string{}
	report := []string{}
	required := map[string]bool{
		"sop.Sleep": false, "sop.Retry": false, "sop.NewTaskRunner": false, "sop.TaskRunner.Go": false,
		"sop.TaskRunner.Wait": false, "sop.TaskRunner.struct": false, "fs.newFileIO": false,
		"fs.TransactionLog.Add": false, "cache.GetGlobalL1Cache": false,
	}
	mapRanges := 0
	for _, p := range pkgs {
		dir := filepath.Join(*repo, p.dir)
		fset := token.NewFileSet()
		ents, err := os.ReadDir(dir)
		if err != nil {
			fatal("%v", err)
		}
		var files []*ast.File
		fes := map[*ast.File]*fileEdits{}
		for _, e := range ents {
			n := e.Name()
			if e.IsDir() || !strings.HasSuffix(n, ".go") || strings.HasSuffix(n, "_test.go") {
				continue
			}
			path := filepath.Join(dir, n)
			src, err := os.ReadFile(path)
			if err != nil {
				fatal("%v", err)
			}
			f, err := parser.ParseFile(fset, path, src, parser.ParseComments|parser.SkipObjectResolution)
			if err != nil {
				fatal("parse %s: %v", path, err)
			}
			if f.Name.Name != p.name {
				continue
			}
			files = append(files, f)
			fes[f] = &fileEdits{path: path, src: src}
		}
		var info *types.Info
		if p.typecheck {
			info = &types.Info{Types: map[ast.Expr]types.TypeAndValue{}, Uses: map[*ast.Ident]types.Object{}}
			conf := types.Config{Importer: importer.ForCompiler(fset, "source", nil), Error: func(err error) {}}
			if _, err := conf.Check("github.com/sharedcode/sop/"+p.dir, fset, files, info); err != nil {
				// errors tolerated (Error callback); a nil package would be fatal
				_ = err
			}
		}
		off := func(pos token.Pos) int { return fset.Position(pos).Offset }
		for _, f := range files {
			fe := fes[f]
			base := filepath.Base(fe.path)
			needSop := false
			keepTime, keepOs := false, false
			prepend := func(fn *ast.FuncDecl, text string) {
				fe.edits = append(fe.edits, edit{off: off(fn.Body.Lbrace) + 1, ins: " " + text})
			}
			params := func(fn *ast.FuncDecl) []string {
				var r []string
				for _, fld := range fn.Type.Params.List {
					for _, n := range fld.Names {
						r = append(r, n.Name)
					}
				}
				return r
			}
			recvName := func(fn *ast.FuncDecl) string {
				if fn.Recv == nil || len(fn.Recv.List) == 0 || len(fn.Recv.List[0].Names) == 0 {
					return ""
				}
				return fn.Recv.List[0].Names[0].Name
			}
			recvType := func(fn *ast.FuncDecl) string {
				if fn.Recv == nil || len(fn.Recv.List) == 0 {
					return ""
				}
				t := fn.Recv.List[0].Type
				if s, ok := t.(*ast.StarExpr); ok {
					t = s.X
				}
				if id, ok := t.(*ast.Ident); ok {
					return id.Name
				}
				return ""
			}
			for _, d := range f.Decls {
				switch d := d.(type) {
				case *ast.GenDecl:
					if p.name == "sop" && d.Tok == token.TYPE {
						for _, s := range d.Specs {
							ts := s.(*ast.TypeSpec)
							if st, ok := ts.Type.(*ast.StructType); ok && ts.Name.Name == "TaskRunner" {
								fe.edits = append(fe.edits, edit{off: off(st.Fields.Opening) + 1, ins: "\n\tsim *simTaskRunner\n"})
								required["sop.TaskRunner.struct"] = true
							}
						}
					}
				case *ast.FuncDecl:
					if d.Body == nil {
						continue
					}
					ps := params(d)
					key := p.name + "."
					if rt := recvType(d); rt != "" {
						key += rt + "."
					}
					key += d.Name.Name
					switch key {
					case "sop.Sleep":
						if len(ps) == 2 {
							prepend(d, fmt.Sprintf("if SimSleepHook != nil { SimSleepHook(%s, %s); return };", ps[0], ps[1]))
							required[key] = true
						}
					case "sop.Retry":
						if len(ps) == 3 {
							prepend(d, fmt.Sprintf("if SimRetryHook != nil { return SimRetryHook(%s, %s, %s) };", ps[0], ps[1], ps[2]))
							required[key] = true
						}
					case "sop.NewTaskRunner":
						if len(ps) == 2 {
							prepend(d, fmt.Sprintf("if SimInlineTasks { simCtx, simCancel := context.WithCancelCause(%s); return &TaskRunner{context: simCtx, sim: &simTaskRunner{cancel: simCancel}} };", ps[0]))
							required[key] = true
						}
					case "sop.TaskRunner.Go":
						if len(ps) == 1 && recvName(d) != "" {
							r := recvName(d)
							prepend(d, fmt.Sprintf("if %s.sim != nil { %s.sim.tasks = append(%s.sim.tasks, %s); return };", r, r, r, ps[0]))
							required[key] = true
						}
					case "sop.TaskRunner.Wait":
						if recvName(d) != "" {
							r := recvName(d)
							prepend(d, fmt.Sprintf("if %s.sim != nil { return %s.sim.wait() };", r, r))
							required[key] = true
						}
					case "fs.newFileIO":
						if len(ps) == 1 {
							prepend(d, fmt.Sprintf("if SimNewFileIOHook != nil { return SimNewFileIOHook(%s) };", ps[0]))
							required[key] = true
						}
					case "fs.TransactionLog.Add":
						if len(ps) == 4 && recvName(d) != "" {
							prepend(d, fmt.Sprintf("if SimTLogAddHook != nil { simDone, simErr := SimTLogAddHook(%s, %s.format(%s), %s); if simErr != nil { return simErr }; if simDone != nil { defer simDone() } };", ps[0], recvName(d), ps[1], ps[2]))
							required[key] = true
						}
					case "cache.GetGlobalL1Cache":
						if len(ps) == 1 {
							prepend(d, fmt.Sprintf("if SimL1Hook != nil { if simC := SimL1Hook(%s); simC != nil { return simC } };", ps[0]))
							required[key] = true
						}
					}
				}
			}
			if info != nil {
				osRedirect := p.name == "fs" && (base == "transactionlog.go" || base == "storerepository.copier.go")
				ast.Inspect(f, func(n ast.Node) bool {
					switch n := n.(type) {
					case *ast.SelectorExpr:
						id, ok := n.X.(*ast.Ident)
						if !ok {
							return true
						}
						pn, ok := info.Uses[id].(*types.PkgName)
						if !ok {
							return true
						}
						switch pn.Imported().Path() {
						case "time":
							repl := ""
							switch n.Sel.Name {
							case "Now":
								repl = "sop.Now"
							case "Since":
								repl = "sop.SimSince"
							case "Sleep":
								repl = "sop.SimSleepNoCtx"
							}
							if repl != "" {
								fe.edits = append(fe.edits, edit{off: off(n.Pos()), del: off(n.End()) - off(n.Pos()), ins: repl})
								needSop = true
								keepTime = true
								report = append(report, fmt.Sprintf("%s:%d time.%s -> %s", fe.path, fset.Position(n.Pos()).Line, n.Sel.Name, repl))
							}
						case "os":
							if !osRedirect {
								return true
							}
							repl := ""
							switch n.Sel.Name {
							case "Create":
								repl = "SimOsCreate"
							case "Open":
								repl = "SimOsOpen"
							case "Remove":
								repl = "SimOsRemove"
							}
							if repl != "" {
								fe.edits = append(fe.edits, edit{off: off(n.Pos()), del: off(n.End()) - off(n.Pos()), ins: repl})
								keepOs = true
								report = append(report, fmt.Sprintf("%s:%d os.%s -> %s", fe.path, fset.Position(n.Pos()).Line, n.Sel.Name, repl))
							}
						}
					case *ast.RangeStmt:
						tv, ok := info.Types[n.X]
						if !ok || tv.Type == nil {
							return true
						}
						if m, ok := tv.Type.Underlying().(*types.Map); ok {
							fe.edits = append(fe.edits, edit{off: off(n.X.Pos()), ins: "sop.SimOrdered("})
							fe.edits = append(fe.edits, edit{off: off(n.X.End()), ins: ")"})
							needSop = true
							mapRanges++
							report = append(report, fmt.Sprintf("%s:%d map range key=%s", fe.path, fset.Position(n.Pos()).Line, m.Key().String()))
						}
					}
					return true
				})
			}
			if len(fe.edits) == 0 {
				continue
			}
			if needSop {
				has := false
				for _, im := range f.Imports {
					if im.Path.Value == `"github.com/sharedcode/sop"` && (im.Name == nil || im.Name.Name == "sop") {
						has = true
					}
				}
				if !has {
					// a separate import declaration right after the package clause is always legal
					fe.edits = append(fe.edits, edit{off: off(f.Name.End()), ins: "; import \"github.com/sharedcode/sop\""})
				}
			}
			if keepTime {
				fe.tail += "\nvar _ time.Duration\n"
			}
			if keepOs {
				fe.tail += "\nvar _ = os.ErrNotExist\n"
			}
			out := applyEdits(fe)
			rel, _ := filepath.Rel(*repo, fe.path)
			dst := filepath.Join(*outDir, strings.ReplaceAll(rel, string(os.PathSeparator), "__"))
			if err := os.WriteFile(dst, out, 0o644); err != nil {
				fatal("%v", err)
			}
			overlay[fe.path] = dst
		}
		// zz_sim.go
		tpl, err := os.ReadFile(filepath.Join(*srcDir, p.zz))
		if err != nil {
			fatal("%v", err)
		}
		dst := filepath.Join(*outDir, p.name+"__zz_sim.go")
		if err := os.WriteFile(dst, tpl, 0o644); err != nil {
			fatal("%v", err)
		}
		overlay[filepath.Join(dir, "zz_sim.go")] = dst
	}
	var missing []string
	for k, ok := range required {
		if !ok {
			missing = append(missing, k)
		}
	}
	sort.Strings(missing)
	if len(missing) > 0 {
		fatal("instrumentation targets not found: %v", missing)
	}
	if mapRanges < 5 {
		fatal("only %d map range sites found (type checking failed?)", mapRanges)
	}
	js, _ := json.MarshalIndent(map[string]any{"Replace": overlay}, "", " ")
	if err := os.WriteFile(filepath.Join(*outDir, "overlay.json"), js, 0o644); err != nil {
		fatal("%v", err)
	}
	sort.Strings(report)
	h := sha256.Sum256([]byte(strings.Join(report, "\n")))
	os.WriteFile(filepath.Join(*outDir, "report.txt"), []byte(strings.Join(report, "\n")+"\n"), 0o644)
	fmt.Printf("simgen: %d files overlaid, %d map-range sites, report %s\n", len(overlay), mapRanges, hex.EncodeToString(h[:4]))
}

func applyEdits(fe *fileEdits) []byte {
	es := fe.edits
	sort.SliceStable(es, func(i, j int) bool { return es[i].off > es[j].off })
	out := append([]byte{}, fe.src...)
	for _, e := range es {
		var b []byte
		b = append(b, out[:e.off]...)
		b = append(b, e.ins...)
		b = append(b, out[e.off+e.del:]...)
		out = b
	}
	return append(out, fe.tail...)
}
