package main

import (
	"encoding/json"
	"fmt"
	"os"
	"strconv"
	"time"

	"verif/harness/checks"
)

func main() {
	checks.InitRunDir()
	defer checks.CleanupRunDir() // the debug subcommands below return from main
	if len(os.Args) > 1 && os.Args[1] == "smoke" {
		seed := uint64(1)
		if len(os.Args) > 2 {
			v, _ := strconv.ParseUint(os.Args[2], 10, 64)
			seed = v
		}
		n := 1
		if len(os.Args) > 3 {
			n, _ = strconv.Atoi(os.Args[3])
		}
		t0 := time.Now()
		for i := 0; i < n; i++ {
			c := smokeCase(seed + uint64(i))
			r := checks.Execute(c)
			if n == 1 {
				js, _ := json.MarshalIndent(map[string]any{"txns": r.Txns, "obs": r.Obs}, "", " ")
				fmt.Println(string(js))
				fmt.Println("ops:", r.Sim.OpKinds)
			}
			fmt.Println("seed", seed+uint64(i), "hash", r.Hash, "steps", r.Steps, "hang", r.Hang, "switches", r.Sim.Switches, "outcomes", outcomes(r))
		}
		fmt.Println("wall", time.Since(t0))
		return
	}
	if len(os.Args) > 2 && os.Args[1] == "case" {
		b, err := os.ReadFile(os.Args[2])
		if err != nil {
			panic(err)
		}
		var c checks.Case
		var rf struct{ Payload json.RawMessage }
		if json.Unmarshal(b, &rf) == nil && len(rf.Payload) > 0 {
			b = rf.Payload
		}
		if err := json.Unmarshal(b, &c); err != nil {
			panic(err)
		}
		r := checks.Execute(&c)
		for _, t := range r.Txns {
			js, _ := json.Marshal(t)
			fmt.Println(string(js))
		}
		for _, o := range r.Obs {
			js, _ := json.Marshal(o)
			fmt.Println(string(js))
		}
		if os.Getenv("VERIF_KEEPLOG") != "" {
			for _, e := range r.Sim.Log {
				fmt.Printf("%5d %12v %-8s %4d %-18s %s %s\n", e.Seq, e.Now, e.Task, e.Op, e.Kind, e.Target, e.Fault)
			}
		}
		fmt.Println("hash", r.Hash, "fired", r.Sim.Fired)
		return
	}
	if len(os.Args) > 1 && os.Args[1] == "run" {
		checks.SweepStaleRunDirs()
	}
	code := checks.Main(os.Args[1:])
	checks.CleanupRunDir()
	os.Exit(code)
}

func outcomes(r *checks.Result) []string {
	var o []string
	for _, t := range r.Txns {
		o = append(o, t.Name+":"+t.Outcome)
	}
	return o
}

func smokeCase(seed uint64) *checks.Case {
	st := checks.StoreSpec{Name: "s0", Slot: 4, Unique: true}
	seedTx := checks.Txn{Name: "seed", Mode: "w", Create: []int{0}, End: "commit"}
	for k := 0; k < 10; k++ {
		seedTx.Ops = append(seedTx.Ops, checks.Op{K: "add", S: 0, Key: k * 10, Val: fmt.Sprintf("seed.%d", k)})
	}
	var ws []checks.Txn
	for w := 0; w < 3; w++ {
		tx := checks.Txn{Name: fmt.Sprintf("w%d", w), Mode: "w", End: "commit"}
		for k := 0; k < 3; k++ {
			tx.Ops = append(tx.Ops, checks.Op{K: "add", S: 0, Key: w*3 + k + 1, Val: fmt.Sprintf("w%d.%d", w, k)})
		}
		ws = append(ws, tx)
	}
	return &checks.Case{Seed: seed, Stores: []checks.StoreSpec{st}, Phases: []checks.Phase{
		{Kind: "group", Txns: []checks.Txn{seedTx}},
		{Kind: "group", Txns: ws},
		{Kind: "observe_cold", Label: "final"},
	}}
}
