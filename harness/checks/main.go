package checks

import (
	"bufio"
	"encoding/json"
	"fmt"
	"math/rand/v2"
	"os"
	"os/exec"
	"path/filepath"
	"regexp"
	"runtime"
	"runtime/debug"
	"sort"
	"strconv"
	"strings"
	"sync"
	"time"

	"verif/harness/sim"
)

// Violation is one oracle failure.
type Violation struct {
	Property string          `json:"property"`
	Class    string          `json:"class"` // signature: oracle rule + structural pattern, never the seed
	Msg      string          `json:"msg"`
	Payload  json.RawMessage `json:"payload"` // what Replay needs (a Case, or a check-specific record)
	Unit     int             `json:"unit"`
	Hash     string          `json:"hash,omitempty"`
}

// Unit is one work unit of a check (typically one simulated run or one enumerated program).
type Unit struct {
	Index int
	Seed  uint64
	Tier  string
	Rng   *rand.Rand
	Rep   *UnitReport
	Check *CheckDef
	Start time.Time
}

// UnitReport is what a unit contributes to the evidence.
type UnitReport struct {
	Index      int            `json:"index"`
	Evals      int            `json:"evals"`
	Sigs       []string       `json:"sigs,omitempty"` // signatures of non-trivial cases
	Violations []Violation    `json:"violations,omitempty"`
	Faults     map[string]int `json:"faults,omitempty"`
	Probes     map[string]int `json:"probes,omitempty"`
	Ops        int            `json:"ops"`
	Steps      int            `json:"steps"`
	SimNs      int64          `json:"sim_ns"`
	Samples    []any          `json:"samples,omitempty"`
	Infra      string         `json:"infra,omitempty"`
	Exhaustive bool           `json:"exhaustive,omitempty"`
	Inconcl    int            `json:"inconclusive,omitempty"`
	Hashes     []string       `json:"hashes,omitempty"`
	Hang       bool           `json:"hang,omitempty"` // the worker process had to end: a task hung inside sop
}

// CheckDef defines one property check.
type CheckDef struct {
	ID        string
	Level     string // exploration | fault_enumeration
	Rule      string // how cases are generated and what makes one non-trivial
	Units     func(tier string) int
	Run       func(u *Unit)
	Replay    func(payload json.RawMessage) []Violation
	Minimise  func(v Violation) Violation
	Assume    []string
	Real      []string
	Stub      []string
	Exhaust   string
	UnitLimit time.Duration
}

var registry = map[string]*CheckDef{}

// Register adds a check.
func Register(c *CheckDef) { registry[c.ID] = c }

// AddFault / AddProbe helpers.
func (r *UnitReport) addStats(res *Result) {
	if res == nil || res.Sim == nil {
		return
	}
	if r.Faults == nil {
		r.Faults = map[string]int{}
	}
	if r.Probes == nil {
		r.Probes = map[string]int{}
	}
	for k, v := range res.Sim.FaultCount {
		r.Faults[k] += v
	}
	for k, v := range res.Sim.Probes {
		r.Probes[k] += v
	}
	r.Ops += res.Sim.Seq()
	r.Steps += res.Steps
	r.SimNs += int64(res.Sim.Elapsed())
}

// VerifDir is /verif (where evidence, replays and known findings live).
var VerifDir = func() string {
	if d := os.Getenv("VERIF_DIR"); d != "" {
		return d
	}
	return "/verif"
}()

type knownFinding struct {
	Property string `json:"property"`
	Class    string `json:"class"`
	ClassRe  string `json:"class_re,omitempty"` // alternative to class: anchored regular expression
	What     string `json:"what"`
	Status   string `json:"status"` // open | fixed
	Commit   string `json:"commit,omitempty"`
}

func loadKnown() []knownFinding {
	b, err := os.ReadFile(filepath.Join(VerifDir, "known_findings.json"))
	if err != nil {
		return nil
	}
	var k []knownFinding
	if err := json.Unmarshal(b, &k); err != nil {
		fmt.Fprintf(os.Stderr, "known_findings.json: %v\n", err)
		os.Exit(2)
	}
	return k
}

func isKnown(k []knownFinding, v Violation) *knownFinding {
	for i := range k {
		if k[i].Status != "open" || k[i].Property != v.Property {
			continue
		}
		if k[i].Class != "" && k[i].Class == v.Class {
			return &k[i]
		}
		if k[i].ClassRe != "" {
			if re, err := regexp.Compile("^(?:" + k[i].ClassRe + ")$"); err == nil && re.MatchString(v.Class) {
				return &k[i]
			}
		}
	}
	return nil
}

func defaultSeed(tier string) uint64 {
	if s := os.Getenv("VERIF_SEED"); s != "" {
		if v, err := strconv.ParseUint(s, 10, 64); err == nil {
			return v
		}
		if v, err := strconv.ParseInt(s, 10, 64); err == nil {
			return uint64(v)
		}
	}
	if tier == "thorough" {
		return 20260921
	}
	return 1
}

// Main is the entry point of the simcheck driver.
func Main(args []string) int {
	InitRunDir()
	if len(args) == 0 {
		fmt.Fprintln(os.Stderr, "usage: simcheck run <id> <tier> | worker ... | replay <file> | list")
		return 2
	}
	switch args[0] {
	case "list":
		ids := []string{}
		for id := range registry {
			ids = append(ids, id)
		}
		sort.Strings(ids)
		for _, id := range ids {
			fmt.Println(id, registry[id].Level)
		}
		return 0
	case "worker":
		return workerMain(args[1:])
	case "run":
		if len(args) < 3 {
			return 2
		}
		return runMain(args[1], args[2])
	case "replay":
		if len(args) < 2 {
			return 2
		}
		return replayMain(args[1])
	case "selftest":
		return selftestMain(args[1:])
	case "minimise":
		return minimiseMain(args[1:])
	case "eccase":
		return ECCaseMain()
	}
	fmt.Fprintln(os.Stderr, "unknown command", args[0])
	return 2
}

func unitSeed(seed uint64, id string, i int) uint64 {
	h := seed*0x9E3779B97F4A7C15 + uint64(i)*0xBF58476D1CE4E5B9
	for j := 0; j < len(id); j++ {
		h ^= uint64(id[j])
		h *= 1099511628211
	}
	h ^= h >> 31
	return h
}

func workerMain(args []string) int {
	// worker <id> <tier> <seed> <k> <n> <deadline-unix>: runs units i with i%n==k
	if len(args) < 6 {
		return 2
	}
	c := registry[args[0]]
	if c == nil {
		return 2
	}
	tier := args[1]
	seed, _ := strconv.ParseUint(args[2], 10, 64)
	k, _ := strconv.Atoi(args[3])
	n, _ := strconv.Atoi(args[4])
	dl, _ := strconv.ParseInt(args[5], 10, 64)
	total := c.Units(tier)
	if strings.HasPrefix(tier, "selftest:") {
		total, _ = strconv.Atoi(strings.TrimPrefix(tier, "selftest:"))
		tier = "quick"
	}
	out := bufio.NewWriter(os.Stdout)
	defer out.Flush()
	enc := json.NewEncoder(out)
	start := k
	if len(args) > 6 {
		start, _ = strconv.Atoi(args[6])
	}
	installStuckHandler(enc, out)
	for i := start; i < total; i += n {
		if dl > 0 && time.Now().Unix() > dl {
			break
		}
		rep := runUnit(c, tier, seed, i)
		enc.Encode(rep)
		out.Flush()
	}
	cleanupRunDir()
	return 0
}

// current unit / case of this worker (for hang reports)
var curUnit *Unit
var curCase any
var curCheck string

// installStuckHandler: a task that hangs inside sop (pure CPU loop, no yield) cannot be
// interrupted in-process. The worker reports the case it was executing as a violation
// candidate of class hang/<first sop frame of the hung goroutine> and exits with status 4;
// the driver then continues the remaining units in a fresh worker.
func installStuckHandler(enc *json.Encoder, out *bufio.Writer) {
	sim.StuckHandler = func(s *sim.Sim, t *sim.Task, stacks string) {
		rep := &UnitReport{Hang: true}
		if curUnit != nil {
			rep = curUnit.Rep
			rep.Hang = true
		}
		cls := "hang/" + strings.TrimPrefix(hangFrame(stacks), "panic/")
		v := Violation{Property: curCheck, Class: cls,
			Msg: fmt.Sprintf("task %s did not yield or finish within %v of real time at its intercepted call #%d: it spins inside sop (goroutine stack: %s)", t.Name, sim.StuckLimit, t.OpCount, hangFrames(stacks, 6))}
		if curCase != nil {
			v.Payload = mustJSON(curCase)
		}
		rep.Violations = append(rep.Violations, v)
		rep.Evals++
		enc.Encode(rep)
		out.Flush()
		cleanupRunDir()
		os.Exit(4)
	}
}

// hangFrame finds, in a full goroutine dump, the goroutine that is running sop code and
// returns its innermost sop frame as a class name.
func hangFrame(stacks string) string {
	for _, g := range strings.Split(stacks, "\n\n") {
		if !strings.Contains(g, "[runnable]") && !strings.Contains(g, "[running]") {
			continue
		}
		if !strings.Contains(g, "github.com/sharedcode/sop/") || strings.Contains(g, "sim.(*Sim).Run(") {
			continue
		}
		// prefer the public B-tree method the caller was in
		for _, line := range strings.Split(g, "\n") {
			if strings.HasPrefix(line, "github.com/sharedcode/sop/btree.(*Btree") {
				f := strings.TrimPrefix(line, "github.com/sharedcode/sop/")
				if j := strings.LastIndex(f, "("); j > 0 {
					f = f[:j]
				}
				return "panic/" + strings.ReplaceAll(f, "[...]", "")
			}
		}
		return panicClass(g)
	}
	return "panic/unknown"
}

func hangFrames(stacks string, n int) string {
	for _, g := range strings.Split(stacks, "\n\n") {
		if (strings.Contains(g, "[runnable]") || strings.Contains(g, "[running]")) && strings.Contains(g, "github.com/sharedcode/sop/") && !strings.Contains(g, "sim.(*Sim).Run(") {
			var fr []string
			for _, line := range strings.Split(g, "\n") {
				if strings.HasPrefix(line, "github.com/sharedcode/sop/") {
					f := strings.TrimPrefix(line, "github.com/sharedcode/sop/")
					if j := strings.LastIndex(f, "("); j > 0 {
						f = f[:j]
					}
					fr = append(fr, f)
					if len(fr) >= n {
						break
					}
				}
			}
			return strings.Join(fr, " <- ")
		}
	}
	return ""
}

func runUnit(c *CheckDef, tier string, seed uint64, i int) *UnitReport {
	us := unitSeed(seed, c.ID, i)
	rep := &UnitReport{Index: i}
	curCheck = c.ID
	u := &Unit{Index: i, Seed: us, Tier: tier, Rng: rand.New(rand.NewPCG(us, 0x5eed)), Rep: rep, Check: c, Start: time.Now()}
	curUnit = u
	done := make(chan struct{})
	go func() {
		defer close(done)
		defer func() {
			if r := recover(); r != nil {
				rep.Infra = fmt.Sprintf("harness panic in unit %d: %v\n%s", i, r, debug.Stack())
			}
		}()
		c.Run(u)
	}()
	limit := c.UnitLimit
	if limit == 0 {
		limit = 300 * time.Second
	}
	select {
	case <-done:
	case <-time.After(limit):
		rep.Infra = fmt.Sprintf("watchdog: unit %d (seed %d) did not finish in %v", i, us, limit)
		// the worker cannot continue safely (a World may still be installed)
		json.NewEncoder(os.Stdout).Encode(rep)
		cleanupRunDir()
		os.Exit(3)
	}
	return rep
}

type evidence struct {
	PropertyID  string         `json:"property_id"`
	Tier        string         `json:"tier"`
	Seed        int64          `json:"seed"`
	Level       string         `json:"level"`
	Coverage    map[string]any `json:"coverage"`
	Assumptions []string       `json:"assumptions"`
	WallS       float64        `json:"wall_s"`
	Violations  int            `json:"violations"`
}

func runMain(id, tier string) int {
	c := registry[id]
	if c == nil {
		fmt.Fprintln(os.Stderr, "unknown check", id)
		return 2
	}
	if t := os.Getenv("VERIF_TIER"); t != "" && tier == "" {
		tier = t
	}
	seed := defaultSeed(tier)
	fmt.Printf("check=%s tier=%s VERIF_SEED=%d\n", id, tier, seed)
	t0 := time.Now()
	nw := runtime.NumCPU()
	if s := os.Getenv("VERIF_WORKERS"); s != "" {
		nw, _ = strconv.Atoi(s)
	}
	total := c.Units(tier)
	if nw > total {
		nw = total
	}
	budget := 240 * time.Second
	if tier == "thorough" {
		budget = 40 * time.Minute
	}
	if s := os.Getenv("VERIF_BUDGET_S"); s != "" {
		v, _ := strconv.Atoi(s)
		budget = time.Duration(v) * time.Second
	}
	deadline := time.Now().Add(budget).Unix()
	exe, _ := os.Executable()
	var mu sync.Mutex
	var reports []*UnitReport
	infra := []string{}
	var wg sync.WaitGroup
	for k := 0; k < nw; k++ {
		wg.Add(1)
		go func(k int) {
			defer wg.Done()
			start := k
			for start < total {
				cmd := exec.Command(exe, "worker", id, tier, strconv.FormatUint(seed, 10), strconv.Itoa(k), strconv.Itoa(nw), strconv.FormatInt(deadline, 10), strconv.Itoa(start))
				cmd.Stderr = os.Stderr
				cmd.Env = append(os.Environ(), "GOMAXPROCS=2")
				out, err := cmd.StdoutPipe()
				if err != nil {
					mu.Lock()
					infra = append(infra, err.Error())
					mu.Unlock()
					return
				}
				if err := cmd.Start(); err != nil {
					mu.Lock()
					infra = append(infra, err.Error())
					mu.Unlock()
					return
				}
				hungAt := -1
				sc := bufio.NewScanner(out)
				sc.Buffer(make([]byte, 1<<20), 1<<28)
				for sc.Scan() {
					var r UnitReport
					if err := json.Unmarshal(sc.Bytes(), &r); err != nil {
						mu.Lock()
						infra = append(infra, "bad worker output: "+err.Error())
						mu.Unlock()
						continue
					}
					if r.Hang {
						hungAt = r.Index
					}
					mu.Lock()
					reports = append(reports, &r)
					mu.Unlock()
				}
				err = cmd.Wait()
				if hungAt >= 0 {
					start = hungAt + nw // continue after the unit that hung, in a fresh process
					continue
				}
				if err != nil {
					mu.Lock()
					infra = append(infra, fmt.Sprintf("worker %d: %v", k, err))
					mu.Unlock()
				}
				return
			}
		}(k)
	}
	wg.Wait()
	sort.Slice(reports, func(i, j int) bool { return reports[i].Index < reports[j].Index })

	// aggregate
	evals, ops, steps, inconcl := 0, 0, 0, 0
	var simNs int64
	sigs := map[string]bool{}
	faults := map[string]int{}
	probes := map[string]int{}
	var samples []any
	var viols []Violation
	exhaustive := len(reports) == total
	for _, r := range reports {
		evals += r.Evals
		ops += r.Ops
		steps += r.Steps
		simNs += r.SimNs
		inconcl += r.Inconcl
		for _, s := range r.Sigs {
			sigs[s] = true
		}
		for k, v := range r.Faults {
			faults[k] += v
		}
		for k, v := range r.Probes {
			probes[k] += v
		}
		if len(samples) < 3 && len(r.Samples) > 0 {
			samples = append(samples, r.Samples[0])
		}
		for _, v := range r.Violations {
			v.Unit = r.Index
			viols = append(viols, v)
		}
		if r.Infra != "" {
			infra = append(infra, r.Infra)
		}
		if !r.Exhaustive {
			exhaustive = false
		}
	}
	wall := time.Since(t0).Seconds()
	known := loadKnown()
	knownSeen := map[string]bool{}
	var fresh []Violation
	for _, v := range viols {
		if v.Property == "" {
			v.Property = id
		}
		if k := isKnown(known, v); k != nil && os.Getenv("VERIF_SHOW_KNOWN") == "" {
			if !knownSeen[k.Class+k.ClassRe] {
				knownSeen[k.Class+k.ClassRe] = true
				fmt.Printf("KNOWN-FINDING: property=%s %s [%s%s]\n", v.Property, k.What, k.Class, k.ClassRe)
			}
			continue
		}
		fresh = append(fresh, v)
	}
	cov := map[string]any{
		"evaluations":          evals,
		"distinct_nontrivial":  len(sigs),
		"rule":                 c.Rule,
		"samples":              samples,
		"units_planned":        total,
		"units_completed":      len(reports),
		"intercepted_ops":      ops,
		"scheduler_steps":      steps,
		"simulated_time_s":     float64(simNs) / 1e9,
		"runs_per_hour":        float64(evals) / wall * 3600,
		"faults_fired_by_kind": faults,
		"probes":               probes,
		"inconclusive":         inconcl,
		"known_findings_seen":  len(knownSeen),
		"components_real":      c.Real,
		"components_stubbed":   c.Stub,
		"workers":              nw,
		"exhaustive_subspace":  c.Exhaust,
		"exhaustive":           exhaustive && c.Exhaust != "",
	}
	ev := evidence{PropertyID: id, Tier: tier, Seed: int64(seed), Level: c.Level, Coverage: cov, Assumptions: c.Assume, WallS: wall, Violations: len(fresh)}
	if ev.Assumptions == nil {
		ev.Assumptions = []string{}
	}
	if len(infra) > 0 {
		for _, s := range infra {
			fmt.Fprintln(os.Stderr, "INFRA:", s)
		}
		fmt.Fprintf(os.Stderr, "check %s: infrastructure trouble, no verdict\n", id)
		return 2
	}
	if len(samples) == 0 || evals == 0 {
		fmt.Fprintf(os.Stderr, "check %s: no evaluations\n", id)
		return 2
	}
	os.MkdirAll(filepath.Join(VerifDir, "evidence"), 0o755)
	js, _ := json.MarshalIndent(ev, "", " ")
	if err := os.WriteFile(filepath.Join(VerifDir, "evidence", id+".json"), append(js, '\n'), 0o644); err != nil {
		fmt.Fprintln(os.Stderr, err)
		return 2
	}
	fmt.Printf("check=%s units=%d/%d evaluations=%d distinct_nontrivial=%d faults=%v wall=%.1fs violations=%d known=%d\n",
		id, len(reports), total, evals, len(sigs), faults, wall, len(fresh), len(knownSeen))
	if len(fresh) == 0 {
		return 0
	}
	{
		hist := map[string]int{}
		for _, v := range fresh {
			hist[v.Class]++
		}
		keys := []string{}
		for k := range hist {
			keys = append(keys, k)
		}
		sort.Strings(keys)
		for _, k := range keys {
			fmt.Printf("  class %-60s %d\n", k, hist[k])
		}
	}
	// report each distinct class once, minimised
	seen := map[string]bool{}
	os.MkdirAll(filepath.Join(VerifDir, "replays"), 0o755)
	for _, v := range fresh {
		if seen[v.Class] {
			continue
		}
		seen[v.Class] = true
		if c.Minimise != nil && len(seen) <= 10 && !strings.HasPrefix(v.Class, "hang/") {
			v = minimiseInSubprocess(exe, id, v)
		}
		path := filepath.Join(VerifDir, "replays", fmt.Sprintf("%s-%d-%d-%s.json", id, seed, v.Unit, sanitize(v.Class)))
		rf := map[string]any{"check": id, "seed": seed, "unit": v.Unit, "class": v.Class, "msg": v.Msg, "payload": v.Payload, "hash": v.Hash}
		b, _ := json.MarshalIndent(rf, "", " ")
		os.WriteFile(path, b, 0o644)
		fmt.Printf("VIOLATION property=%s replay=%s\n", v.Property, path)
		fmt.Printf("  class: %s\n  %s\n", v.Class, strings.ReplaceAll(v.Msg, "\n", "\n  "))
	}
	return 1
}

// minimiseInSubprocess shrinks a violation in a separate process (a candidate may hang or
// crash the process; the best case found so far is checkpointed to a file).
func minimiseInSubprocess(exe, id string, v Violation) Violation {
	dir, err := os.MkdirTemp("", "verif-min-")
	if err != nil {
		return v
	}
	defer os.RemoveAll(dir)
	in, out := filepath.Join(dir, "in.json"), filepath.Join(dir, "out.json")
	os.WriteFile(in, mustJSON(v), 0o644)
	cmd := exec.Command(exe, "minimise", id, in, out)
	cmd.Stderr = nil
	done := make(chan error, 1)
	cmd.Start()
	go func() { done <- cmd.Wait() }()
	select {
	case <-done:
	case <-time.After(150 * time.Second):
		cmd.Process.Kill()
		<-done
	}
	if b, err := os.ReadFile(out); err == nil {
		var m Violation
		if json.Unmarshal(b, &m) == nil && m.Class == v.Class && len(m.Payload) > 0 {
			m.Unit = v.Unit
			return m
		}
	}
	return v
}

// minimiseCheckpoint is where the running minimiser saves its best case so far.
var minimiseCheckpoint string

func minimiseMain(args []string) int {
	if len(args) < 3 {
		return 2
	}
	c := registry[args[0]]
	if c == nil || c.Minimise == nil {
		return 2
	}
	b, err := os.ReadFile(args[1])
	if err != nil {
		return 2
	}
	var v Violation
	if json.Unmarshal(b, &v) != nil {
		return 2
	}
	minimiseCheckpoint = args[2]
	sim.StuckHandler = func(*sim.Sim, *sim.Task, string) {
		cleanupRunDir()
		os.Exit(5) // a candidate hung: keep the checkpointed best
	}
	m := c.Minimise(v)
	os.WriteFile(args[2], mustJSON(m), 0o644)
	cleanupRunDir()
	return 0
}

func sanitize(s string) string {
	var b strings.Builder
	for _, r := range s {
		if (r >= 'a' && r <= 'z') || (r >= 'A' && r <= 'Z') || (r >= '0' && r <= '9') || r == '-' || r == '_' {
			b.WriteRune(r)
		} else {
			b.WriteByte('_')
		}
		if b.Len() > 60 {
			break
		}
	}
	return b.String()
}

func replayMain(path string) int {
	b, err := os.ReadFile(path)
	if err != nil {
		fmt.Fprintln(os.Stderr, err)
		return 2
	}
	var rf struct {
		Check   string          `json:"check"`
		Class   string          `json:"class"`
		Payload json.RawMessage `json:"payload"`
		Hash    string          `json:"hash"`
	}
	if err := json.Unmarshal(b, &rf); err != nil {
		fmt.Fprintln(os.Stderr, err)
		return 2
	}
	c := registry[rf.Check]
	if c == nil || c.Replay == nil {
		fmt.Fprintln(os.Stderr, "no replay for", rf.Check)
		return 2
	}
	sim.StuckHandler = func(s *sim.Sim, t *sim.Task, stacks string) {
		cls := "hang/" + strings.TrimPrefix(hangFrame(stacks), "panic/")
		cleanupRunDir()
		if cls == rf.Class {
			fmt.Printf("VIOLATION property=%s replay=%s\n  class: %s\n  task %s hangs inside sop again (%s)\n", rf.Check, path, cls, t.Name, hangFrames(stacks, 6))
			os.Exit(1)
		}
		fmt.Printf("REPLAY-DIVERGED: expected class %q, the replay hung in %q\n", rf.Class, cls)
		os.Exit(2)
	}
	vs := c.Replay(rf.Payload)
	cleanupRunDir()
	for _, v := range vs {
		if v.Class == rf.Class {
			if rf.Hash != "" && v.Hash != "" && rf.Hash != v.Hash {
				fmt.Printf("REPLAY-DIVERGED: same violation class but event-log hash %s != recorded %s\n", v.Hash, rf.Hash)
				return 2
			}
			fmt.Printf("VIOLATION property=%s replay=%s\n  class: %s\n  %s\n", rf.Check, path, v.Class, strings.ReplaceAll(v.Msg, "\n", "\n  "))
			return 1
		}
	}
	if len(vs) > 0 {
		fmt.Printf("REPLAY-DIVERGED: expected class %q, got %q\n", rf.Class, vs[0].Class)
		return 2
	}
	fmt.Println("replay: no violation (property holds on this tree for the recorded case)")
	return 0
}
