package checks

import (
	"context"
	"encoding/json"
	"fmt"
	"hash/crc32"
	"math/rand/v2"
	"os"
	"path/filepath"
	"sort"
	"strings"

	"github.com/sharedcode/sop"
	"github.com/sharedcode/sop/encoding"
	sopfs "github.com/sharedcode/sop/fs"

	"verif/harness/sim"
)

// C21: the on-disk registry behaves as a map from id to handle (sequential model).
// C22: registry block writes survive a crash as either the old or the new block.
// C23: corrupted registry data is reported, never served.

type regStep struct {
	Op  string `json:"op"` // add, update, updnl, remove, get, coldget
	IDs []int  `json:"ids,omitempty"`
}

type regCase struct {
	Seed   uint64          `json:"seed"`
	Mod    int             `json:"mod"`
	Blocks int             `json:"blocks"` // ids are crafted to fall into this many blocks
	Slots  int             `json:"slots"`  // ... and this many slots per block
	Pool   int             `json:"pool"`   // number of distinct ids
	Steps  []regStep       `json:"steps"`
	Faults []sim.FaultSpec `json:"faults,omitempty"`
	// C23
	Corrupt *corruptSpec `json:"corrupt,omitempty"`
}

// poolID crafts the i-th id of the pool: block = (i % Blocks), slot = ((i / Blocks) % Slots),
// the remaining bits make it unique.
func (c *regCase) poolID(i int) sop.UUID {
	var id sop.UUID
	block := uint64(i % c.Blocks)
	slot := uint64((i / c.Blocks) % c.Slots)
	uniq := uint64(i / (c.Blocks * c.Slots))
	high := block + uint64(c.Mod)*(uint64(i)+1)*7 // high % mod == block % mod
	low := slot + 66*(uniq*131+uint64(i)+1)       // low % 66 == slot
	for b := 0; b < 8; b++ {
		id[b] = byte(high >> (56 - 8*uint(b)))
		id[8+b] = byte(low >> (56 - 8*uint(b)))
	}
	return id
}

type regEnv struct {
	c      *regCase
	s      *sim.Sim
	w      *sim.World
	folder string
	table  string
}

func newRegEnv(c *regCase) (*regEnv, error) {
	runCounter++
	dir := filepath.Join(RunDirBase, "g")
	os.RemoveAll(dir)
	s := sim.New(sim.Config{Seed: c.Seed, Policy: "random", Sticky: 0.7, Faults: c.Faults, KeepLog: keepLog})
	w, err := sim.NewWorld(s, dir)
	if err != nil {
		return nil, err
	}
	w.L1Min, w.L1Max, w.ShardCap = 32, 64, 1000
	w.Restart()
	e := &regEnv{c: c, s: s, w: w, folder: filepath.Join(dir, "data"), table: "reg"}
	os.MkdirAll(filepath.Join(e.folder, e.table), 0o755)
	return e, nil
}

func (e *regEnv) registry(ctx context.Context) (sop.Registry, func(), error) {
	rt, err := sopfs.NewReplicationTracker(ctx, []string{e.folder}, false, e.w.Proxy)
	if err != nil {
		return nil, nil, err
	}
	r := sopfs.NewRegistry(true, e.c.Mod, rt, e.w.Proxy)
	return r, func() { r.Close() }, nil
}

// registryRO is what reader and no-check transactions use: the segment files are opened read-only.
func (e *regEnv) registryRO(ctx context.Context) (sop.Registry, func(), error) {
	rt, err := sopfs.NewReplicationTracker(ctx, []string{e.folder}, false, e.w.Proxy)
	if err != nil {
		return nil, nil, err
	}
	r := sopfs.NewRegistry(false, e.c.Mod, rt, e.w.Proxy)
	return r, func() { r.Close() }, nil
}

func (e *regEnv) payloadH(hs []sop.Handle) []sop.RegistryPayload[sop.Handle] {
	return []sop.RegistryPayload[sop.Handle]{{RegistryTable: e.table, IDs: hs}}
}
func (e *regEnv) payloadID(ids []sop.UUID) []sop.RegistryPayload[sop.UUID] {
	return []sop.RegistryPayload[sop.UUID]{{RegistryTable: e.table, IDs: ids}}
}

func genRegCase(r *rand.Rand) *regCase {
	c := &regCase{Seed: r.Uint64(), Mod: pick(r, 1, 1, 2, 3, 4, 250), Blocks: 1 + r.IntN(3), Slots: pick(r, 1, 2, 3, 66)}
	if c.Blocks > c.Mod {
		c.Blocks = c.Mod
	}
	c.Pool = pick(r, 4, 8, 20, 80, 150)
	present := map[int]bool{}
	n := 4 + r.IntN(25)
	for i := 0; i < n; i++ {
		var absent, pres []int
		for k := 0; k < c.Pool; k++ {
			if present[k] {
				pres = append(pres, k)
			} else {
				absent = append(absent, k)
			}
		}
		take := func(from []int, max int) []int {
			if len(from) == 0 {
				return nil
			}
			m := 1 + r.IntN(max)
			if m > len(from) {
				m = len(from)
			}
			r.Shuffle(len(from), func(a, b int) { from[a], from[b] = from[b], from[a] })
			out := append([]int{}, from[:m]...)
			sort.Ints(out)
			return out
		}
		switch r.IntN(10) {
		case 0, 1, 2, 3:
			ids := take(absent, pick(r, 1, 3, 10, 70))
			if ids == nil {
				continue
			}
			op := "add"
			if len(ids) >= 2 && r.IntN(3) == 0 {
				op = "padd" // the ids are added by two registry users at the same time, half each
			}
			c.Steps = append(c.Steps, regStep{Op: op, IDs: ids})
			for _, k := range ids {
				present[k] = true
			}
		case 4:
			if ids := take(pres, 5); ids != nil {
				c.Steps = append(c.Steps, regStep{Op: "update", IDs: ids})
			}
		case 5:
			if ids := take(pres, 5); ids != nil {
				c.Steps = append(c.Steps, regStep{Op: "updnl", IDs: ids})
			}
		case 6, 7:
			if ids := take(pres, pick(r, 1, 4, 30)); ids != nil {
				c.Steps = append(c.Steps, regStep{Op: "remove", IDs: ids})
				for _, k := range ids {
					delete(present, k)
				}
			}
		case 8:
			all := make([]int, c.Pool)
			for k := range all {
				all[k] = k
			}
			c.Steps = append(c.Steps, regStep{Op: "get", IDs: take(all, 12)})
		default:
			c.Steps = append(c.Steps, regStep{Op: "coldget"})
		}
	}
	c.Steps = append(c.Steps, regStep{Op: "coldget"})
	return c
}

func regTag(c *regCase) string {
	t := fmt.Sprintf("/mod%d", c.Mod)
	if c.Mod > 4 {
		t = "/mod-default"
	}
	if c.Slots <= 3 {
		t += "/colliding-slots"
	}
	return t
}

func runRegCase(c *regCase) (vs []Violation, s *sim.Sim) {
	e, err := newRegEnv(c)
	if err != nil {
		return []Violation{{Class: "infra", Msg: err.Error()}}, nil
	}
	defer e.w.Close(false)
	s = e.s
	tag := regTag(c)
	add := func(class, msg string) {
		for _, v := range vs {
			if v.Class == class+tag {
				return
			}
		}
		vs = append(vs, Violation{Class: class + tag, Msg: msg})
	}
	model := map[int]sop.Handle{}
	removed := map[int]bool{}
	version := int32(0)
	ctx := context.Background()
	var reg sop.Registry
	var closeReg func()
	checkGet := func(step int, what string, ids []int) {
		var uu []sop.UUID
		for _, k := range ids {
			uu = append(uu, c.poolID(k))
		}
		res, err := reg.Get(ctx, e.payloadID(uu))
		if err != nil {
			add("get-error", fmt.Sprintf("step %d %s: Get%v failed: %v", step, what, ids, err))
			return
		}
		got := map[sop.UUID]sop.Handle{}
		if len(res) > 0 {
			for _, h := range res[0].IDs {
				if _, dup := got[h.LogicalID]; dup {
					add("get-duplicate", fmt.Sprintf("step %d %s: Get returned id %v twice", step, what, h.LogicalID))
				}
				got[h.LogicalID] = h
			}
		}
		for _, k := range ids {
			id := c.poolID(k)
			want, present := model[k]
			h, found := got[id]
			switch {
			case present && !found:
				add("present-id-not-found", fmt.Sprintf("step %d %s: id #%d (block %d slot %d) was written (version %d) and not removed, Get does not return it", step, what, k, k%c.Blocks, (k/c.Blocks)%c.Slots, want.Version))
			case present && h != want:
				add("wrong-handle", fmt.Sprintf("step %d %s: id #%d: Get returned %+v, last written %+v", step, what, k, h, want))
			case !present && found && removed[k]:
				add("removed-id-reappeared", fmt.Sprintf("step %d %s: id #%d was removed and Get returns it again: %+v", step, what, k, h))
			case !present && found:
				add("absent-id-returned", fmt.Sprintf("step %d %s: id #%d was never added, Get returns %+v", step, what, k, h))
			}
			delete(got, id)
		}
		for id := range got {
			add("unrequested-id-returned", fmt.Sprintf("step %d %s: Get returned %v which was not asked for", step, what, id))
		}
	}
	s.Spawn("reg", 0, func(t *sim.Task) {
		var err error
		reg, closeReg, err = e.registry(ctx)
		if err != nil {
			add("infra", err.Error())
			return
		}
		for si, st := range c.Steps {
			var hs []sop.Handle
			var uu []sop.UUID
			for _, k := range st.IDs {
				version++
				h := sop.NewHandle(c.poolID(k))
				if old, ok := model[k]; ok {
					h = old
				}
				h.Version = version
				if version%3 == 0 {
					h.PhysicalIDB = sop.NewUUID()
					h.IsActiveIDB = version%2 == 0
					h.WorkInProgressTimestamp = int64(version) * 1000
				}
				hs = append(hs, h)
				uu = append(uu, c.poolID(k))
			}
			switch st.Op {
			case "add", "update", "updnl", "padd":
				var err error
				switch st.Op {
				case "padd":
					// two users of the registry (two transactions) add disjoint ids concurrently
					half := len(hs) / 2
					name := fmt.Sprintf("padd%d", si)
					var err2 error
					other := hs[half:]
					s.Spawn(name, 0, func(*sim.Task) {
						r2, close2, e2 := e.registry(ctx)
						if e2 != nil {
							err2 = e2
							return
						}
						defer close2()
						err2 = r2.Add(ctx, e.payloadH(other))
					})
					err = reg.Add(ctx, e.payloadH(hs[:half]))
					s.WaitDone(name)
					if err == nil {
						err = err2
					}
				case "add":
					err = reg.Add(ctx, e.payloadH(hs))
				case "update":
					err = reg.Update(ctx, e.payloadH(hs))
				default:
					err = reg.UpdateNoLocks(ctx, false, e.payloadH(hs))
				}
				if err != nil {
					if st.Op == "padd" {
						// under contention an Add may give up (lock not acquired); the case ends here, what
						// was added is not known to the model (the ids of this step are taken out of it)
						for _, k := range st.IDs {
							delete(model, k)
							delete(removed, k)
						}
						return
					}
					add(st.Op+"-error", fmt.Sprintf("step %d %s%v failed on a fault-free disk: %v", si, st.Op, st.IDs, err))
					return
				}
				for i, k := range st.IDs {
					model[k] = hs[i]
					delete(removed, k)
				}
				checkGet(si, "after "+st.Op, st.IDs)
			case "remove":
				allPresent := true
				for _, k := range st.IDs {
					if _, ok := model[k]; !ok {
						allPresent = false
					}
				}
				if err := reg.Remove(ctx, e.payloadID(uu)); err != nil {
					if allPresent {
						add("remove-error", fmt.Sprintf("step %d remove%v of present ids failed: %v", si, st.IDs, err))
					}
					return
				}
				for _, k := range st.IDs {
					delete(model, k)
					removed[k] = true
				}
				checkGet(si, "after remove", st.IDs)
			case "get":
				checkGet(si, "get", st.IDs)
			case "coldget":
				closeReg()
				e.w.Restart()
				reg, closeReg, err = e.registry(ctx)
				if err != nil {
					add("infra", err.Error())
					return
				}
				all := make([]int, c.Pool)
				for k := range all {
					all[k] = k
				}
				checkGet(si, "cold (new registry object, empty caches)", all)
			}
		}
		closeReg()
	})
	s.Run()
	if os.Getenv("VERIF_DUMPLOG") != "" {
		for _, ev := range s.Log {
			fmt.Fprintf(os.Stderr, "%5d %-8s %4d %-16s %s %s\n", ev.Seq, ev.Task, ev.Op, ev.Kind, strings.TrimPrefix(ev.Target, e.folder), ev.Fault)
		}
	}
	for _, t := range s.Tasks() {
		if t.Panic != nil {
			add(panicClass(t.PanicSt), fmt.Sprintf("registry task panicked: %v", t.Panic))
		}
	}
	// raw walk: every logical id at most once, exactly the model's set
	disk, dups, bad := rawRegistry(filepath.Join(e.folder, e.table))
	if len(bad) > 0 {
		add("bad-block-on-disk", fmt.Sprintf("blocks with wrong checksum after a fault-free run: %v", bad))
	}
	if len(dups) > 0 {
		add("id-in-two-slots", fmt.Sprintf("raw walk of the segment files: logical ids stored in more than one slot: %v", dups))
	}
	for k, h := range model {
		if d, ok := disk[c.poolID(k)]; !ok {
			add("present-id-not-on-disk", fmt.Sprintf("raw walk: id #%d missing on disk", k))
		} else if d != h {
			add("wrong-handle-on-disk", fmt.Sprintf("raw walk: id #%d on disk %+v, last written %+v", k, d, h))
		}
	}
	for k := range removed {
		if _, ok := disk[c.poolID(k)]; ok {
			add("removed-id-still-on-disk", fmt.Sprintf("raw walk: id #%d was removed but still occupies a slot", k))
		}
	}
	return vs, s
}

// rawRegistry decodes every non-zero slot of every segment file in dir.
func rawRegistry(dir string) (map[sop.UUID]sop.Handle, []string, []string) {
	out := map[sop.UUID]sop.Handle{}
	var dups, bad []string
	files, _ := filepath.Glob(filepath.Join(dir, "*.reg"))
	sort.Strings(files)
	he := encoding.NewHandleMarshaler()
	for _, f := range files {
		data, err := os.ReadFile(f)
		if err != nil {
			continue
		}
		for off := 0; off+4096 <= len(data); off += 4096 {
			blk := data[off : off+4096]
			if isZero(blk) {
				continue
			}
			if crc32.ChecksumIEEE(blk[:4092]) != uint32(blk[4092])|uint32(blk[4093])<<8|uint32(blk[4094])<<16|uint32(blk[4095])<<24 {
				bad = append(bad, fmt.Sprintf("%s@%d", filepath.Base(f), off))
				continue
			}
			for sl := 0; sl < 66; sl++ {
				rec := blk[sl*62 : sl*62+62]
				if isZero(rec) {
					continue
				}
				var h sop.Handle
				if he.Unmarshal(rec, &h) != nil {
					continue
				}
				if _, dup := out[h.LogicalID]; dup {
					dups = append(dups, fmt.Sprintf("%v (%s@%d slot %d)", h.LogicalID, filepath.Base(f), off, sl))
				}
				out[h.LogicalID] = h
			}
		}
	}
	return out, dups, bad
}

func isZero(b []byte) bool {
	for _, c := range b {
		if c != 0 {
			return false
		}
	}
	return true
}

func runC21(u *Unit) {
	for j := 0; j < 25; j++ {
		c := genRegCase(u.Rng)
		curCase = c
		vs, s := runRegCase(c)
		u.Rep.Evals++
		if s != nil {
			u.Rep.Ops += s.Seq()
			u.Rep.Steps += s.Steps()
			u.Rep.SimNs += int64(s.Elapsed())
			u.Rep.Hashes = append(u.Rep.Hashes, s.LogHash())
		}
		for _, v := range vs {
			if strings.HasPrefix(v.Class, "infra") {
				u.Rep.Infra = v.Msg
				return
			}
			v.Payload = mustJSON(c)
			u.Rep.Violations = append(u.Rep.Violations, v)
		}
		if len(c.Steps) >= 3 {
			u.Rep.Sigs = append(u.Rep.Sigs, fmt.Sprintf("%x", fnv(string(mustJSON(c)))))
		}
		if len(u.Rep.Samples) == 0 && u.Index < 3 {
			u.Rep.Samples = append(u.Rep.Samples, c)
		}
	}
}

func replayReg(run func(*regCase) ([]Violation, *sim.Sim)) func(json.RawMessage) []Violation {
	return func(payload json.RawMessage) []Violation {
		var c regCase
		if err := json.Unmarshal(payload, &c); err != nil {
			return []Violation{{Class: "bad-replay-file", Msg: err.Error()}}
		}
		vs, _ := run(&c)
		return vs
	}
}

func minimiseReg(run func(*regCase) ([]Violation, *sim.Sim)) func(Violation) Violation {
	return func(v Violation) Violation {
		var c regCase
		if json.Unmarshal(v.Payload, &c) != nil {
			return v
		}
		fails := func(cand *regCase) bool {
			vs, _ := run(cand)
			for _, x := range vs {
				if x.Class == v.Class {
					v.Msg = x.Msg
					return true
				}
			}
			return false
		}
		if !fails(&c) {
			return v
		}
		best := c
		for changed, budget := true, 150; changed && budget > 0; {
			changed = false
			for i := 0; i < len(best.Steps)-1 && budget > 0; i++ {
				cand := best
				cand.Steps = append(append([]regStep{}, best.Steps[:i]...), best.Steps[i+1:]...)
				budget--
				if fails(&cand) {
					best = cand
					changed = true
					i--
				}
			}
		}
		fails(&best)
		v.Payload = mustJSON(best)
		v.Msg += fmt.Sprintf("\n(minimised to %d steps, mod %d, %d blocks x %d slots: %s)", len(best.Steps), best.Mod, best.Blocks, best.Slots, strings.ReplaceAll(string(mustJSON(best.Steps)), "\"", ""))
		return v
	}
}

func init() {
	Register(&CheckDef{ID: "C21", Level: "exploration",
		Rule: "each evaluation = one program of 4-28 registry calls (Add / Add of disjoint ids by two registry users at the same time under the seeded scheduler / Update / UpdateNoLocks / Remove / Get / lookup through a brand-new registry object with empty caches) through fs.NewRegistry on the simulated disk, over a pool of 4-150 ids crafted to collide: hash modulus 1-4 (or 250), ids confined to 1-3 blocks and 1-3 (or all 66) slots, so blocks fill up and entries overflow into segment files 2, 3, ...; compared call by call with a map model (last written handle for present ids, nothing for absent ones, removed ids never return), plus a raw walk of the segment files at the end (no id in two slots, on-disk set == model). distinct_nontrivial = distinct cases with >= 3 steps",
		Units: func(tier string) int {
			if tier == "thorough" {
				return 1200
			}
			return 64
		},
		Run: runC21, Replay: replayReg(runRegCase), Minimise: minimiseReg(runRegCase),
		Real:   []string{"fs.registryOnDisk, fs.hashmap (block/slot placement, segment files, COW), fs.fileDirectIO, encoding.HandleEncoder, cache L1 handles + in-memory L2"},
		Stub:   []string{"O_DIRECT (buffered I/O on tmpfs)", "scheduler/clock (single task)"},
		Assume: []string{"sequential model check: no concurrency dimension", "sampling, not proof"}})
}

// corruptSpec describes one corruption of a written block (C23).
type corruptSpec struct {
	Kind   string `json:"kind"`   // bitflip, burst, zerotail
	Offset int    `json:"offset"` // byte offset inside the block
	Len    int    `json:"len"`
	Bit    int    `json:"bit"`
	Cow    string `json:"cow"` // none, stale-valid, badcrc, empty
}
