package checks

import (
	"context"
	"fmt"
	"strings"
	"time"

	"github.com/sharedcode/sop"
	"github.com/sharedcode/sop/infs"
	"verif/harness/sim"
)

// C16: external two-phase participants follow SOP's commit outcome.
//
// A real SOP transaction on the simulated disk gets 0..3 scripted participants attached; every
// participant method and (through the simulator's fault plan) any I/O or cache call of SOP's own
// Begin/Phase1/Phase2/Rollback can fail. The call log of the participants and the store contents
// afterwards are judged.

type scriptedParticipant struct {
	idx   int
	fail  map[string]bool
	log   *[]string
	begun bool
	s     *sim.Sim
}

func (p *scriptedParticipant) rec(m string) error {
	*p.log = append(*p.log, fmt.Sprintf("p%d.%s", p.idx, m))
	if p.s != nil && p.s.InTask() {
		p.s.Op("participant."+m, fmt.Sprintf("p%d", p.idx))
	}
	if p.fail[m] {
		*p.log = append(*p.log, fmt.Sprintf("p%d.%s=err", p.idx, m))
		return fmt.Errorf("participant %d: scripted %s failure", p.idx, m)
	}
	return nil
}
func (p *scriptedParticipant) Begin(ctx context.Context) error {
	err := p.rec("Begin")
	if err == nil {
		p.begun = true
	}
	return err
}
func (p *scriptedParticipant) Phase1Commit(ctx context.Context) error { return p.rec("Phase1") }
func (p *scriptedParticipant) Phase2Commit(ctx context.Context) error { return p.rec("Phase2") }
func (p *scriptedParticipant) Rollback(ctx context.Context, err error) error {
	return p.rec("Rollback")
}
func (p *scriptedParticipant) HasBegun() bool                                  { return p.begun }
func (p *scriptedParticipant) GetMode() sop.TransactionMode                    { return sop.ForWriting }
func (p *scriptedParticipant) GetStores(ctx context.Context) ([]string, error) { return nil, nil }
func (p *scriptedParticipant) Close() error                                    { return nil }
func (p *scriptedParticipant) GetID() sop.UUID                                 { return sop.NilUUID }
func (p *scriptedParticipant) CommitMaxDuration() time.Duration                { return time.Minute }
func (p *scriptedParticipant) OnCommit(callback func(ctx context.Context) error) {
}

// progCase encoding for C16:
//   P["n"]        number of participants
//   Steps         K="pfail" N=participant S=method : scripted failure
//                 K="client" S=commit|rollback     : how the client ends the transaction
//   Faults        simulator faults against task "txn" (SOP's own calls)

func c16Run(c *progCase) ([]Violation, *progStats) {
	vs, st, _ := c16Exec(c)
	return vs, st
}

// c16Exec returns also the number of simulator operations the subject transaction issued.
func c16Exec(c *progCase) ([]Violation, *progStats, int) {
	st := &progStats{Probes: map[string]int{}}
	faults := c.Faults
	cc := *c
	cc.Faults = nil
	e, err := progEnv(&cc)
	if err != nil {
		st.InfraErr = err.Error()
		return nil, st, 0
	}
	defer e.Close()
	st.S = e.S
	sp := StoreSpec{Name: "tp", Slot: 4, Unique: true, ValueMode: c.P["vmode"]}
	before := map[int]string{1: "a", 2: "b", 3: "c", 4: "d", 5: "e"}
	after := map[int]string{1: "a", 2: "B2", 4: "d", 5: "e", 6: "f", 7: "g"}
	setupErr := ""
	e.runTasks([]string{"setup"}, []func(*sim.Task){func(t *sim.Task) {
		ctx := context.Background()
		tr, err := infs.NewTransaction(ctx, e.txOptions("w", 0))
		if err != nil {
			setupErr = err.Error()
			return
		}
		tr.Begin(ctx)
		b, err := infs.NewBtree[int, string](ctx, storeOptions(sp), tr, nil)
		if err != nil {
			setupErr = err.Error()
			return
		}
		for k := 1; k <= 5; k++ {
			b.Add(ctx, k, before[k])
		}
		if err := tr.Commit(ctx); err != nil {
			setupErr = err.Error()
		}
	}})
	if setupErr != "" {
		st.InfraErr = "C16 setup: " + setupErr
		return nil, st, 0
	}
	n := c.P["n"]
	var log []string
	parts := make([]*scriptedParticipant, n)
	for i := range parts {
		parts[i] = &scriptedParticipant{idx: i, fail: map[string]bool{}, log: &log, s: e.S}
	}
	client := "commit"
	for _, s := range c.Steps {
		switch s.K {
		case "pfail":
			if s.N < n {
				parts[s.N].fail[s.S] = true
			}
		case "client":
			client = s.S
		}
	}
	var beginErr, bodyErr, commitErr, rollbackErr error
	rollbackCalled := false
	e.S.Cfg.Faults = faults
	ops0 := 0
	opsN := 0
	panics := e.runTasks([]string{"txn"}, []func(*sim.Task){func(t *sim.Task) {
		ctx := context.Background()
		ops0 = t.OpCount
		defer func() { opsN = t.OpCount - ops0 }()
		tr, err := infs.NewTransaction(ctx, e.txOptions("w", 60))
		if err != nil {
			beginErr = err
			return
		}
		for _, p := range parts {
			tr.(*sop.SinglePhaseTransaction).AddPhasedTransaction(p)
		}
		if beginErr = tr.Begin(ctx); beginErr != nil {
			// a client whose Begin failed rolls back
			rollbackCalled = true
			rollbackErr = tr.Rollback(ctx)
			return
		}
		b, err := infs.OpenBtree[int, string](ctx, sp.Name, tr, nil)
		if err != nil {
			bodyErr = err
			rollbackCalled = true
			rollbackErr = tr.Rollback(ctx)
			return
		}
		body := func() error {
			if ok, err := b.Update(ctx, 2, "B2"); !ok || err != nil {
				return fmt.Errorf("update: %v %v", ok, err)
			}
			if ok, err := b.Remove(ctx, 3); !ok || err != nil {
				return fmt.Errorf("remove: %v %v", ok, err)
			}
			for _, k := range []int{6, 7} {
				if ok, err := b.Add(ctx, k, after[k]); !ok || err != nil {
					return fmt.Errorf("add: %v %v", ok, err)
				}
			}
			return nil
		}
		if bodyErr = body(); bodyErr != nil {
			rollbackCalled = true
			rollbackErr = tr.Rollback(ctx)
			return
		}
		if client == "rollback" {
			rollbackCalled = true
			rollbackErr = tr.Rollback(ctx)
			return
		}
		commitErr = tr.Commit(ctx)
	}})
	e.S.Cfg.Faults = nil
	tag := fmt.Sprintf("/n%d", n)
	if len(faults) > 0 {
		tag += "/sopfault"
	}
	var vs []Violation
	if panics[0] != "" {
		vs = append(vs, Violation{Class: panicClass(panics[0]) + tag, Msg: panics[0]})
		st.Hash = e.S.LogHash()
		return vs, st, opsN
	}
	// observe the store, cold
	e.W.Restart()
	got := map[int]string{}
	obsErr := ""
	e.runTasks([]string{"observe"}, []func(*sim.Task){func(t *sim.Task) {
		ctx := context.Background()
		tr, err := infs.NewTransaction(ctx, e.txOptions("r", 0))
		if err != nil {
			obsErr = err.Error()
			return
		}
		tr.Begin(ctx)
		defer tr.Rollback(ctx)
		b, err := infs.OpenBtree[int, string](ctx, sp.Name, tr, nil)
		if err != nil {
			obsErr = err.Error()
			return
		}
		ok, err := b.First(ctx)
		for i := 0; ok && err == nil && i < 100; i++ {
			v, verr := b.GetCurrentValue(ctx)
			if verr != nil {
				obsErr = verr.Error()
				return
			}
			got[b.GetCurrentKey().Key] = v
			ok, err = b.Next(ctx)
		}
		if err != nil {
			obsErr = err.Error()
		}
	}})
	state := "neither"
	if obsErr != "" {
		state = "unreadable"
	} else if fmt.Sprint(got) == fmt.Sprint(before) {
		state = "before"
	} else if fmt.Sprint(got) == fmt.Sprint(after) {
		state = "after"
	}
	// call log analysis
	count := func(i int, m string) int {
		k := 0
		for _, l := range log {
			if l == fmt.Sprintf("p%d.%s", i, m) {
				k++
			}
		}
		return k
	}
	failed := func(i int, m string) bool {
		for _, l := range log {
			if l == fmt.Sprintf("p%d.%s=err", i, m) {
				return true
			}
		}
		return false
	}
	anyP2 := false
	allP1ok := true
	for i := 0; i < n; i++ {
		if count(i, "Phase2") > 0 {
			anyP2 = true
		}
		if count(i, "Phase1") == 0 || failed(i, "Phase1") {
			allP1ok = false
		}
	}
	desc := fmt.Sprintf("participants=%d scripted failures=%v sop faults=%v client=%s; begin=%v body=%v commit=%v rollback(called=%v)=%v; call log=%v; store state=%s (%v) %s",
		n, c.Steps, firedOf(e.S), client, beginErr, bodyErr, commitErr, rollbackCalled, rollbackErr, log, state, got, obsErr)
	committed := beginErr == nil && bodyErr == nil && client == "commit" && commitErr == nil
	if anyP2 {
		if !allP1ok {
			vs = append(vs, Violation{Class: "phase2-without-all-phase1" + tag, Msg: "a participant's second phase ran although not every first phase succeeded: " + desc})
		}
		if !committed {
			vs = append(vs, Violation{Class: "phase2-although-commit-failed" + tag, Msg: "a participant's second phase ran although Commit did not succeed: " + desc})
		}
		if state != "after" {
			vs = append(vs, Violation{Class: "phase2-but-sop-not-committed/" + state + tag, Msg: "a participant's second phase ran but SOP's changes are not the committed state: " + desc})
		}
	}
	if committed {
		for i := 0; i < n; i++ {
			if count(i, "Phase2") != 1 {
				vs = append(vs, Violation{Class: "commit-ok-participant-not-finalized" + tag, Msg: fmt.Sprintf("Commit succeeded but participant %d saw %d Phase2 calls: %s", i, count(i, "Phase2"), desc)})
			}
		}
		if state != "after" {
			vs = append(vs, Violation{Class: "commit-ok-state-" + state + tag, Msg: "Commit succeeded but the store does not hold the committed state: " + desc})
		}
	} else {
		// something failed before the participants' second phase (or the client rolled back)
		if state != "before" {
			where := "commit"
			switch {
			case beginErr != nil:
				where = "begin"
			case bodyErr != nil:
				where = "body"
			case client == "rollback":
				where = "client-rollback"
			}
			vs = append(vs, Violation{Class: "failed-but-sop-state-" + state + "/" + where + tag, Msg: "the transaction did not commit but SOP's changes were not rolled back: " + desc})
		}
		for i := 0; i < n; i++ {
			if count(i, "Rollback") == 0 {
				where := "commit"
				switch {
				case beginErr != nil:
					where = "begin"
				case bodyErr != nil:
					where = "body"
				case client == "rollback":
					where = "client-rollback"
				}
				vs = append(vs, Violation{Class: "participant-not-asked-to-roll-back/" + where + tag, Msg: fmt.Sprintf("participant %d was never asked to roll back: %s", i, desc)})
				break
			}
		}
	}
	st.Hash = e.S.LogHash()
	st.Nontriv = fmt.Sprintf("%x", fnv(fmt.Sprintf("%v|%v|%s|%d", c.Steps, faults, strings.Join(log, ","), c.P["vmode"])))
	st.Probes["commit_ok"] = b2i(committed)
	st.Probes["participant_phase2_calls"] = b2i(anyP2)
	st.Probes["sop_fault_fired"] = len(e.S.Fired)
	return dedupe(vs), st, opsN
}

func firedOf(s *sim.Sim) string {
	var parts []string
	for _, f := range s.Fired {
		parts = append(parts, fmt.Sprintf("%s@%s#%d", f.Kind, f.Task, f.Op))
	}
	return strings.Join(parts, ",")
}

func b2i(b bool) int {
	if b {
		return 1
	}
	return 0
}

// c16Unit enumerates, for one (n, value placement, client ending): every single scripted
// participant failure, every single SOP fault position (each call the transaction makes, with
// each fault kind), and PRNG-drawn combinations of two and three failures.
func c16Unit(u *Unit) {
	r := u.Rng
	n := u.Index % 4
	vmode := (u.Index / 4) % 2
	base := func() *progCase {
		return &progCase{Seed: r.Uint64(), Policy: "seq", P: map[string]int{"n": n, "vmode": vmode}}
	}
	pc := &progCheck{id: "C16", run: c16Run}
	runOne := func(c *progCase) int {
		curCase = c
		vs, st, ops := c16Exec(c)
		u.Rep.Evals++
		if st.InfraErr != "" {
			u.Rep.Infra = st.InfraErr
			return 0
		}
		u.Rep.Ops += st.S.Seq()
		u.Rep.Steps += st.S.Steps()
		u.Rep.SimNs += int64(st.S.Elapsed())
		for _, f := range st.S.Fired {
			if u.Rep.Faults == nil {
				u.Rep.Faults = map[string]int{}
			}
			u.Rep.Faults[f.Kind]++
		}
		for k, v := range st.Probes {
			if u.Rep.Probes == nil {
				u.Rep.Probes = map[string]int{}
			}
			u.Rep.Probes[k] += v
		}
		u.Rep.Hashes = append(u.Rep.Hashes, st.Hash)
		u.Rep.Sigs = append(u.Rep.Sigs, st.Nontriv)
		for _, v := range vs {
			v.Payload = mustJSON(c)
			v.Hash = st.Hash
			u.Rep.Violations = append(u.Rep.Violations, v)
		}
		if len(u.Rep.Samples) == 0 && u.Index < 3 {
			u.Rep.Samples = append(u.Rep.Samples, map[string]any{"case": c, "event_log_hash": st.Hash})
		}
		return ops
	}
	_ = pc
	for _, client := range []string{"commit", "rollback"} {
		// fault-free run: counts the transaction's calls
		c0 := base()
		c0.Steps = []PStep{{K: "client", S: client}}
		ops := runOne(c0)
		if u.Rep.Infra != "" {
			return
		}
		// every single participant failure
		methods := []string{"Begin", "Phase1", "Phase2", "Rollback"}
		for i := 0; i < n; i++ {
			for _, m := range methods {
				c := base()
				c.Steps = []PStep{{K: "client", S: client}, {K: "pfail", N: i, S: m}}
				runOne(c)
			}
		}
		// every single SOP fault position
		stride := 1
		if u.Tier != "thorough" && ops > 60 {
			stride = 3
		}
		for p := 1 + int(r.IntN(stride)); p <= ops; p += stride {
			c := base()
			c.Steps = []PStep{{K: "client", S: client}}
			c.Faults = []sim.FaultSpec{{Task: "txn", Op: p, Kind: pick(r, "eio", "eio", "enospc", "err")}}
			runOne(c)
		}
		// combinations
		combos := 20
		if u.Tier == "thorough" {
			combos = 120
		}
		for k := 0; k < combos && n > 0; k++ {
			c := base()
			c.Steps = []PStep{{K: "client", S: client}}
			for j := 0; j < 1+r.IntN(3); j++ {
				c.Steps = append(c.Steps, PStep{K: "pfail", N: r.IntN(n), S: pick(r, methods...)})
			}
			if r.IntN(2) == 0 && ops > 0 {
				c.Faults = []sim.FaultSpec{{Task: "txn", Op: 1 + r.IntN(ops), Kind: pick(r, "eio", "enospc", "err")}}
				if r.IntN(3) == 0 {
					c.Faults = append(c.Faults, sim.FaultSpec{Task: "txn", Op: 1 + r.IntN(ops), Kind: "eio"})
				}
			}
			runOne(c)
		}
	}
	u.Rep.Exhaustive = u.Tier == "thorough"
}

func init() {
	pc := &progCheck{id: "C16", run: c16Run}
	d := pc.def("fault_enumeration",
		"one unit = (number of participants 0..3) x (value placement in-node / separate) ; for client endings {Commit, Rollback}: the fault-free run, EVERY single scripted participant failure (participant x {Begin, Phase1, Phase2, Rollback}), a simulator fault (eio/enospc/cache error) at EVERY call position of SOP's own Begin/body/Phase1/Phase2/Rollback (every 3rd position in the quick tier), and PRNG-drawn combinations of 1-3 participant failures with 0-2 SOP faults. Oracle on the participants' call log and a cold read of the store: a participant Phase2 implies all Phase1 succeeded, Commit returned nil and the store holds the committed state; otherwise the store holds the previous state and every participant got a Rollback call. distinct_nontrivial = distinct (failure plan, call log)",
		func(tier string) int {
			if tier == "thorough" {
				return 32
			}
			return 8
		},
		[]string{"sop.SinglePhaseTransaction (Begin/Commit/Rollback fan-out), common.Transaction two-phase commit and rollback, fs registry/blob/log code on the simulated disk"},
		[]string{"participants are scripted stubs (that is the property's setup)", "disk and cache faults injected by the simulator", "single client task: no schedule dimension"},
		[]string{"participants are attached before Begin", "a client whose Begin or body fails calls Rollback", "single-failure positions are enumerated, multi-failure combinations sampled"})
	d.Run = c16Unit
	Register(d)
}
