package checks

import (
	"fmt"
	"math/rand/v2"
	"sort"
	"strings"
	"time"

	"github.com/anishathalye/porcupine"
)

// C02 serializability, C03 no dirty reads, C05 unique keys, C06 count == contents: all use
// the same generator of concurrent transactions over overlapping keys of seeded stores.

type concOpts struct {
	kinds      []string
	rollbackP  int // 1/n of transactions end in Rollback
	readers    bool
	faults     bool
	hold       bool
	emptyStore bool
	maxTxns    int
	stagger    bool
}

func genConc(o concOpts) func(r *rand.Rand, tier string) *Case {
	return func(r *rand.Rand, tier string) *Case {
		c := &Case{Seed: r.Uint64(), HashMod: pick(r, 1, 4, 250)}
		schedPolicy(r, c)
		c.Stores = concStores(r, 1+r.IntN(2))
		keyspace := pick(r, 4, 6, 10)
		m := Model{}
		nseed := 1 + r.IntN(keyspace)
		if o.emptyStore && r.IntN(5) == 0 {
			nseed = 0
		}
		setup := setupTxn(r, c, m, nseed, keyspace)
		c.Phases = append(c.Phases, Phase{Kind: "group", Txns: []Txn{setup}})
		if r.IntN(2) == 0 {
			c.Phases = append(c.Phases, Phase{Kind: "restart"})
		}
		nt := 2 + r.IntN(o.maxTxns-1)
		var txs []Txn
		for t := 0; t < nt; t++ {
			tx := Txn{Name: fmt.Sprintf("t%d", t), Mode: "w", End: "commit"}
			if o.rollbackP > 0 && r.IntN(o.rollbackP) == 0 {
				tx.End = "rollback"
			}
			kinds := o.kinds
			if o.readers && r.IntN(4) == 0 {
				tx.Mode = "r"
				kinds = []string{"get", "get", "scan", "count"}
			}
			n := 1 + r.IntN(5)
			for i := 0; i < n; i++ {
				si := r.IntN(len(c.Stores))
				k := kinds[r.IntN(len(kinds))]
				op := Op{K: k, S: si, Key: 1 + r.IntN(keyspace)}
				if k == "rmw" { // read-modify-write of one key: Get, then Update/UpdateCurrentValue
					tx.Ops = append(tx.Ops, Op{K: "get", S: si, Key: op.Key})
					k = pick(r, "update", "updcur")
					op.K = k
				}
				switch k {
				case "add", "addif", "upsert", "update", "updcur":
					op.Val = fmt.Sprintf("%s.%d", tx.Name, i)
				}
				tx.Ops = append(tx.Ops, op)
			}
			txs = append(txs, tx)
		}
		if o.stagger && r.IntN(3) == 0 {
			// staggered commits: bodies overlap (same snapshot), commits run one after another
			for i := 1; i < len(txs); i++ {
				txs[i].CommitAfter = txs[i-1].Name
			}
		} else if o.hold && len(txs) >= 2 && r.IntN(2) == 0 {
			// targeted: pause a writer at a random step until another transaction is done
			w := r.IntN(len(txs))
			other := (w + 1 + r.IntN(len(txs)-1)) % len(txs)
			txs[w].HoldAt = 1 + r.IntN(260)
			txs[w].HoldFor = txs[other].Name
		}
		c.Phases = append(c.Phases, Phase{Kind: "group", Txns: txs})
		if o.faults && r.IntN(3) != 0 {
			c.Rates = ioRates
			c.MaxRand = 1 + r.IntN(2)
			c.FaultPhase = 2
		}
		c.Phases = append(c.Phases, Phase{Kind: "observe", Label: "warm"}, Phase{Kind: "observe_cold", Label: "cold"})
		return c
	}
}

// ---- C02: serializability (porcupine over committed transactions) ----------------------------

type txnInput struct {
	tx    *Txn
	c     *Case
	final bool
}

type txnOutput struct {
	res   *TxnResult
	final map[string][]KV
}

// state: canonical string "store\x00k=v,k=v;..."
func encodeState(m Model, c *Case) string {
	var b strings.Builder
	for _, sp := range c.Stores {
		b.WriteString(sp.Name)
		b.WriteByte(0)
		b.WriteString(kvString(m[sp.Name]))
		b.WriteByte(';')
	}
	return b.String()
}

func decodeState(s string, c *Case) Model {
	m := Model{}
	parts := strings.Split(s, ";")
	for i, sp := range c.Stores {
		m[sp.Name] = []KV{}
		if i >= len(parts) {
			continue
		}
		body := parts[i]
		if j := strings.IndexByte(body, 0); j >= 0 {
			body = body[j+1:]
		}
		for _, f := range strings.Fields(body) {
			var k int
			var v string
			if j := strings.IndexByte(f, '='); j > 0 {
				fmt.Sscanf(f[:j], "%d", &k)
				v = f[j+1:]
			}
			m[sp.Name] = append(m[sp.Name], KV{k, v})
		}
	}
	return m
}

// relax: 0 = every observed result is checked; 1 = Count() results ignored; 2 = also results
// that report absence (Get/Find miss, Add/AddIfNotExist false because present is still
// checked; Update/Remove false, Get miss are ignored) - i.e. only positive reads are checked.
func serialModel(c *Case, relax int) porcupine.Model {
	return porcupine.Model{
		Init: func() interface{} { return "" },
		Step: func(state, input, output interface{}) (bool, interface{}) {
			in := input.(txnInput)
			out := output.(txnOutput)
			m := decodeState(state.(string), c)
			if in.final {
				for _, sp := range c.Stores {
					if !sameItems(m[sp.Name], out.final[sp.Name]) {
						return false, state
					}
				}
				return true, state
			}
			for i, op := range in.tx.Ops {
				if i >= len(out.res.Ops) {
					break
				}
				sp := c.Stores[op.S]
				got := out.res.Ops[i]
				probe := m.clone()
				ok, val, items, count, _ := probe.ModelOp(sp.Name, sp.Unique, op)
				switch op.K {
				case "add", "addif", "upsert", "update", "updkey", "remove", "find", "updcur", "rmcur":
					if got.OK == ok {
						m = probe
						continue
					}
					if relax < 2 {
						return false, state
					}
					switch op.K {
					case "update", "updkey", "remove", "find", "updcur", "rmcur":
						if got.OK {
							return false, state // reported presence of something the model does not have
						}
						// reported absence: nothing was done
					case "add", "addif":
						if !got.OK {
							if relax >= 3 {
								continue // a rejected duplicate is a read of "key present" that sop does not validate either
							}
							return false, state // reported presence of a key the model does not have
						}
						// reported absence and inserted: the transaction's own item goes in front of the equal
						// key it did not see, so that its later calls on that key (remove, update) hit its own item
						a := m[sp.Name]
						pos := sort.Search(len(a), func(i int) bool { return a[i].K >= op.Key })
						a = append(a, KV{})
						copy(a[pos+1:], a[pos:])
						a[pos] = KV{op.Key, op.Val}
						m[sp.Name] = a
					default:
						return false, state
					}
				case "get":
					if relax >= 2 && !got.OK {
						continue
					}
					if got.OK != ok || (ok && got.Val != val) {
						return false, state
					}
				case "count":
					if relax >= 1 {
						continue
					}
					if got.Count != count {
						return false, state
					}
				case "scan":
					if relax >= 2 {
						// only what was returned is checked (every returned item must exist)
						for _, g := range got.Items {
							found := false
							for _, it := range items {
								if it == g {
									found = true
								}
							}
							if !found {
								return false, state
							}
						}
						continue
					}
					if !sameScan(got.Items, items, op.N) {
						return false, state
					}
				}
			}
			return true, encodeState(m, c)
		},
		Equal: func(a, b interface{}) bool { return a.(string) == b.(string) },
	}
}

func findResult(res *Result, name string, phase int) *TxnResult {
	var tr *TxnResult
	for k := range res.Txns {
		if res.Txns[k].Name == name && res.Txns[k].Phase == phase {
			tr = &res.Txns[k]
		}
	}
	return tr
}

var inconclusiveCount int

func oracleC02(c *Case, res *Result) []Violation {
	gi := lastGroupIdx(c)
	m := Model{}
	// setup
	for pi, ph := range c.Phases {
		if ph.Kind != "group" || pi == gi {
			continue
		}
		for ti := range ph.Txns {
			tr := findResult(res, ph.Txns[ti].Name, pi)
			if tr == nil || tr.Outcome != "committed" {
				return []Violation{{Class: "setup-failed", Msg: "setup transaction did not commit"}}
			}
			m.ApplyTxn(c, &ph.Txns[ti])
		}
	}
	tag := fmt.Sprintf("/txns%d", len(c.Phases[gi].Txns))
	if len(c.Phases[gi].Txns) > 1 && c.Phases[gi].Txns[1].CommitAfter != "" {
		tag += "/staggered"
	}
	for _, sp := range c.Stores {
		if len(m[sp.Name]) == 0 {
			tag += "/emptystore"
			break
		}
	}
	for _, ph := range c.Phases[:gi] {
		if ph.Kind == "restart" {
			tag += "/coldcache"
			break
		}
	}
	for _, sp := range c.Stores {
		if sp.ValueMode != 0 {
			tag += "/outofnode" // values kept outside the node: written by every attempt before the conflict checks
			break
		}
	}
	if len(c.Stores) > 1 {
		tag += "/multistore"
	}
	var ops []porcupine.Operation
	id := 0
	desc := []string{}
	for ti := range c.Phases[gi].Txns {
		tx := &c.Phases[gi].Txns[ti]
		tr := findResult(res, tx.Name, gi)
		if tr == nil {
			continue
		}
		if tr.Outcome == "panic" {
			return []Violation{{Class: panicClass(tr.Panic) + tag, Msg: tx.Name + ": " + tr.Panic}}
		}
		if tr.Outcome != "committed" {
			continue
		}
		ops = append(ops, porcupine.Operation{ClientId: id, Input: txnInput{tx: tx, c: c}, Call: 0, Output: txnOutput{res: tr}, Return: 10})
		id++
		desc = append(desc, describeTxn(c, tx, tr))
	}
	if len(ops) == 0 {
		return nil
	}
	var vs []Violation
	init := encodeState(m, c)
	mk := func(relax int) porcupine.Model {
		model := serialModel(c, relax)
		model.Init = func() interface{} { return init }
		return model
	}
	for _, o := range res.Obs {
		if o.Err != "" {
			continue
		}
		final := map[string][]KV{}
		bad := false
		for _, sp := range c.Stores {
			d := o.Stores[sp.Name]
			if d.Err != "" || d.ScanErr != "" {
				bad = true
			}
			final[sp.Name] = d.Items
		}
		if bad {
			vs = append(vs, Violation{Class: "unreadable-after-commits" + tag, Msg: fmt.Sprintf("observer %s cannot read a store after the concurrent group", o.Label)})
			continue
		}
		all := append(append([]porcupine.Operation{}, ops...), porcupine.Operation{ClientId: id, Input: txnInput{final: true, c: c}, Call: 20, Output: txnOutput{final: final}, Return: 30})
		r := porcupine.CheckOperationsTimeout(mk(0), all, 20*time.Second)
		if r == porcupine.Unknown {
			inconclusiveCount++
			continue
		}
		if r == porcupine.Illegal {
			kind := "/positive-reads-or-writes"
			if porcupine.CheckOperationsTimeout(mk(1), all, 20*time.Second) == porcupine.Ok {
				kind = "/count-only"
			} else if porcupine.CheckOperationsTimeout(mk(2), all, 20*time.Second) == porcupine.Ok {
				kind = "/absence-results-only"
			} else if porcupine.CheckOperationsTimeout(mk(3), all, 20*time.Second) == porcupine.Ok {
				kind = "/rejected-duplicates-only"
			}
			tag := kind + tag
			var fin []string
			for _, sp := range c.Stores {
				fin = append(fin, sp.Name+": ["+kvString(final[sp.Name])+"]")
			}
			vs = append(vs, Violation{Class: "not-serializable" + tag,
				Msg: fmt.Sprintf("no serial order of the %d committed transactions explains their observed results and the final state (observer %s).\ninitial: %s\n%s\nfinal: %s",
					len(ops), o.Label, strings.ReplaceAll(init, "\x00", ": "), strings.Join(desc, "\n"), strings.Join(fin, " "))})
			break
		}
	}
	return vs
}

func describeTxn(c *Case, tx *Txn, tr *TxnResult) string {
	var b strings.Builder
	fmt.Fprintf(&b, "%s(%s):", tx.Name, tx.Mode)
	for i, op := range tx.Ops {
		if i >= len(tr.Ops) {
			break
		}
		g := tr.Ops[i]
		switch op.K {
		case "get":
			fmt.Fprintf(&b, " get(s%d,%d)=(%v,%q)", op.S, op.Key, g.OK, g.Val)
		case "scan":
			fmt.Fprintf(&b, " scan(s%d)=[%s]", op.S, kvString(g.Items))
		case "count":
			fmt.Fprintf(&b, " count(s%d)=%d", op.S, g.Count)
		default:
			fmt.Fprintf(&b, " %s(s%d,%d,%q)=%v", op.K, op.S, op.Key, op.Val, g.OK)
		}
	}
	return b.String()
}

// ---- C03: no dirty reads ------------------------------------------------------------------------

func oracleC03(c *Case, res *Result) []Violation {
	gi := lastGroupIdx(c)
	// value token -> writer transaction result ("tN.i" tokens are unique per run)
	writer := map[string]*TxnResult{}
	byName := map[string]*TxnResult{}
	for k := range res.Txns {
		t := &res.Txns[k]
		if t.Phase == gi {
			byName[t.Name] = t
		}
	}
	tag := ""
	for _, sp := range c.Stores {
		if sp.ValueMode != 0 {
			tag = "/outofnode"
		}
	}
	var vs []Violation
	check := func(reader *TxnResult, val string, seq int, what string) {
		if val == "" || strings.HasPrefix(val, "seed") {
			return
		}
		name := val
		if i := strings.IndexByte(val, '.'); i > 0 {
			name = val[:i]
		}
		w := byName[name]
		_ = writer
		if w == nil || w.Name == reader.Name {
			return
		}
		switch {
		case w.Outcome != "committed" && w.Outcome != "dead":
			vs = append(vs, Violation{Class: "read-of-never-committed/" + w.Outcome + tag,
				Msg: fmt.Sprintf("%s %s value %q written by %s, which ended %s (never committed)", reader.Name, what, val, w.Name, w.Outcome)})
		case w.CommitSeq == 0 || seq < w.CommitSeq:
			vs = append(vs, Violation{Class: "read-before-commit-invoked" + tag,
				Msg: fmt.Sprintf("%s %s value %q at event %d, but its writer %s invoked Commit only at event %d", reader.Name, what, val, seq, w.Name, w.CommitSeq)})
		}
	}
	for ti := range c.Phases[gi].Txns {
		tx := &c.Phases[gi].Txns[ti]
		tr := byName[tx.Name]
		if tr == nil {
			continue
		}
		if tr.Outcome == "panic" {
			return []Violation{{Class: panicClass(tr.Panic), Msg: tx.Name + ": " + tr.Panic}}
		}
		for i, op := range tx.Ops {
			if i >= len(tr.Ops) {
				break
			}
			g := tr.Ops[i]
			switch op.K {
			case "get":
				check(tr, g.Val, g.Seq, fmt.Sprintf("get(s%d,%d) returned", op.S, op.Key))
			case "scan", "rscan":
				for _, kv := range g.Items {
					check(tr, kv.V, g.Seq, fmt.Sprintf("scan(s%d) returned %d with", op.S, kv.K))
				}
			}
		}
	}
	// after everything finished: nothing written by a transaction that did not commit may be visible
	for _, o := range res.Obs {
		for _, sp := range c.Stores {
			for _, kv := range o.Stores[sp.Name].Items {
				name := kv.V
				if i := strings.IndexByte(kv.V, '.'); i > 0 {
					name = kv.V[:i]
				}
				if w := byName[name]; w != nil && w.Outcome != "committed" && w.Outcome != "dead" {
					vs = append(vs, Violation{Class: "aborted-write-visible-afterwards/" + w.Outcome + tag,
						Msg: fmt.Sprintf("observer %s sees %d=%q in %s, written by %s which ended %s (%s)", o.Label, kv.K, kv.V, sp.Name, w.Name, w.Outcome, w.CommitErr)})
				}
			}
		}
	}
	return dedupe(vs)
}

func dedupe(vs []Violation) []Violation {
	seen := map[string]bool{}
	var out []Violation
	for _, v := range vs {
		if !seen[v.Class] {
			seen[v.Class] = true
			out = append(out, v)
		}
	}
	return out
}

// ---- C05: unique keys, C06: count == contents ---------------------------------------------------

func oracleC05(c *Case, res *Result) []Violation {
	var vs []Violation
	tag := fmt.Sprintf("/txns%d", len(c.Phases[lastGroupIdx(c)].Txns))
	for _, t := range res.Txns {
		if t.Outcome == "panic" {
			return []Violation{{Class: panicClass(t.Panic), Msg: t.Name + ": " + t.Panic}}
		}
	}
	if st := findResult(res, "setup", 0); st != nil && len(st.Ops) == 0 {
		tag += "/emptystore"
	}
	for _, ph := range c.Phases[:lastGroupIdx(c)] {
		if ph.Kind == "restart" {
			tag += "/coldcache" // the group starts with empty caches (racing cache fill, see C02/C04)
			break
		}
	}
	for _, o := range res.Obs {
		for _, sp := range c.Stores {
			if !sp.Unique {
				continue
			}
			d := o.Stores[sp.Name]
			for i := 1; i < len(d.Items); i++ {
				if d.Items[i].K == d.Items[i-1].K {
					vs = append(vs, Violation{Class: "duplicate-key-in-unique-store" + tag,
						Msg: fmt.Sprintf("observer %s: unique store %s holds key %d twice: [%s]", o.Label, sp.Name, d.Items[i].K, kvString(d.Items))})
					break
				}
			}
		}
	}
	return dedupe(vs)
}

func oracleC06(c *Case, res *Result) []Violation {
	var vs []Violation
	tag := fmt.Sprintf("/txns%d/faults%d", len(c.Phases[lastGroupIdx(c)].Txns), len(res.Sim.Fired))
	for _, t := range res.Txns {
		if t.Outcome == "panic" {
			return []Violation{{Class: panicClass(t.Panic), Msg: t.Name + ": " + t.Panic}}
		}
	}
	if st := findResult(res, "setup", 0); st != nil && len(st.Ops) == 0 {
		tag += "/emptystore"
	}
	cold := false
	for _, ph := range c.Phases[:lastGroupIdx(c)] {
		if ph.Kind == "restart" {
			cold = true // the group starts with empty caches: store info is loaded from file by racing transactions
		}
	}
	perTask := map[string]int{}
	for _, f := range res.Sim.Fired {
		perTask[f.Task]++
		if f.Kind == "lost" || f.Kind == "miss" {
			cold = true // an injected cache loss puts the reader in the same position as a cold cache
		}
	}
	if cold {
		tag += "/coldcache"
	}
	unlockFailed, someFailed := false, false
	for _, f := range res.Sim.Fired {
		if strings.HasPrefix(f.Match, "l2.Unlock") {
			unlockFailed = true
		}
	}
	for _, t := range res.Txns {
		if t.Outcome == "failed" {
			someFailed = true
		}
	}
	if unlockFailed && someFailed {
		// a store lock that could not be released (injected Unlock failure) stays until its TTL and makes
		// the undo of another transaction's failed commit fail: a double fault, not judged
		return nil
	}
	for _, n := range perTask {
		if n >= 2 {
			// the second failure of one transaction can hit the undo of its failed commit; what a
			// rollback leaves behind on a disk that keeps failing is not judged (as in C01)
			return nil
		}
	}
	bad := map[string]map[string]string{} // store -> observer label -> message
	for _, o := range res.Obs {
		for _, sp := range c.Stores {
			d := o.Stores[sp.Name]
			if !d.Exists || d.Err != "" || d.ScanErr != "" {
				continue
			}
			if d.Count != int64(len(d.Items)) {
				if bad[sp.Name] == nil {
					bad[sp.Name] = map[string]string{}
				}
				bad[sp.Name][o.Label] = fmt.Sprintf("Count()=%d but the ordered scan returns %d items [%s]", d.Count, len(d.Items), kvString(d.Items))
			}
		}
	}
	var outs []string
	for _, t := range res.Txns {
		if t.Phase == lastGroupIdx(c) {
			outs = append(outs, t.Name+":"+t.Outcome)
		}
	}
	sort.Strings(outs)
	for _, sp := range c.Stores {
		b := bad[sp.Name]
		if len(b) == 0 {
			continue
		}
		where := "/persistent" // the cold observer (fresh process, disk truth) sees it
		msg := b["cold"]
		if _, cold := b["cold"]; !cold {
			where = "/warm-cache-only"
			msg = b["warm"]
		}
		vs = append(vs, Violation{Class: "count-differs-from-scan" + where + tag,
			Msg: fmt.Sprintf("store %s (%s): %s; transactions: %s; faults: %s", sp.Name, strings.TrimPrefix(where, "/"), msg, strings.Join(outs, " "), firedSummary(res))})
	}
	return dedupe(vs)
}

func init() {
	kindsRW := []string{"get", "rmw", "rmw", "add", "addif", "upsert", "update", "updcur", "remove", "rmcur", "scan"}
	c02 := &caseCheck{id: "C02", oracle: oracleC02, nontrivial: nontrivialConc, perUnit: func(string) int { return 20 },
		gen: genConc(concOpts{kinds: kindsRW, rollbackP: 6, readers: true, maxTxns: 4, stagger: true})}
	Register(c02.def("exploration",
		"each evaluation = 2-4 concurrent transactions (read-modify-write, blind add/remove, read-only ForReading, some rolled back) over 4-10 overlapping keys of 1-2 seeded stores, interleaved by the seeded scheduler (PCT / sticky random walk) at every intercepted operation; the transactions that committed, with every value/found/count they observed, plus the final warm and cold dump are checked for serializability with porcupine (one operation per transaction, all concurrent; final read ordered last). Unknown (timeout) is counted inconclusive. distinct_nontrivial = distinct context-switch sequences among runs where transactions overlapped",
		func(tier string) int {
			if tier == "thorough" {
				return 1600
			}
			return 96
		}))
	c03 := &caseCheck{id: "C03", oracle: oracleC03, nontrivial: nontrivialConc, perUnit: func(string) int { return 20 },
		gen: genConc(concOpts{kinds: kindsRW, rollbackP: 3, readers: true, hold: true, faults: true, maxTxns: 3})}
	Register(c03.def("exploration",
		"same concurrent workload plus targeted schedules (a writer is paused at a PRNG-chosen step 1..260 of its body or commit until another transaction has run to completion), a third of writers roll back, and 0-2 injected I/O/lock faults make commits fail; every value is a unique token, so each value returned by Get or a scan is attributed to its writer: flagged iff the writer never commits or had not yet invoked Commit at the event the read returned; after the group nothing written by a non-committed transaction may be visible. distinct_nontrivial as C02",
		func(tier string) int {
			if tier == "thorough" {
				return 1600
			}
			return 96
		}))
	c05 := &caseCheck{id: "C05", oracle: oracleC05, nontrivial: nontrivialConc, perUnit: func(string) int { return 20 },
		gen: genConc(concOpts{kinds: []string{"add", "add", "addif", "upsert", "updkey", "remove"}, rollbackP: 8, emptyStore: true, maxTxns: 4, stagger: true})}
	Register(c05.def("exploration",
		"2-4 concurrent transactions calling Add/AddIfNotExist/Upsert/UpdateKey/Remove on 4-10 overlapping keys of unique-key stores (one run in five starts from an empty store: first-commit race), seeded schedules; the final warm and cold ordered scans must not contain two equal adjacent keys. distinct_nontrivial as C02",
		func(tier string) int {
			if tier == "thorough" {
				return 1600
			}
			return 96
		}))
	c06 := &caseCheck{id: "C06", oracle: oracleC06, nontrivial: nontrivialConc, perUnit: func(string) int { return 20 },
		gen: genConc(concOpts{kinds: []string{"add", "add", "addif", "upsert", "remove", "remove", "get"}, rollbackP: 4, faults: true, emptyStore: true, maxTxns: 4})}
	Register(c06.def("exploration",
		"2-4 concurrent add/remove-heavy transactions with commits, rollbacks and 0-2 injected I/O or lock faults (failed commits); at quiescence a fresh warm and a fresh cold transaction compare Count() with the length of the First/Next scan for every store. distinct_nontrivial as C02",
		func(tier string) int {
			if tier == "thorough" {
				return 1600
			}
			return 96
		}))
}
