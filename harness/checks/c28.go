package checks

import (
	"context"
	"encoding/json"
	"fmt"
	"math/rand/v2"
	"os"
	"path/filepath"
	"strings"
	"time"

	"github.com/sharedcode/sop"

	"verif/harness/sim"
)

// C28: a lock is held by at most one owner and only its owner can release it.
// Owners are tasks calling the L2 lock service (in-memory implementation behind the proxy);
// a lock-table model with simulated time is run in lockstep and cross-checked after every call.

type lockStep struct {
	Op    string `json:"op"` // lock, duallock, unlock, islocked, ttl, others, sleep, foreign_unlock
	Keys  []int  `json:"keys,omitempty"`
	TTLms int64  `json:"ttl_ms,omitempty"`
	Ms    int64  `json:"ms,omitempty"` // sleep
	From  int    `json:"from,omitempty"`
}

type lockCase struct {
	Seed   uint64       `json:"seed"`
	Policy string       `json:"policy"`
	Sticky float64      `json:"sticky"`
	Shard  int          `json:"shard"` // in-memory L2 shard capacity (0 = default 1000)
	NKeys  int          `json:"nkeys"`
	Fill   int          `json:"fill"` // unrelated cache entries written between steps (pressure on a full cache)
	Owners [][]lockStep `json:"owners"`
}

func genLockCase(r *rand.Rand) *lockCase {
	c := &lockCase{Seed: r.Uint64(), Policy: pick(r, "random", "pct"), Sticky: pick(r, 0.3, 0.7, 0.9), Shard: pick(r, 0, 0, 1, 2, 4), NKeys: 1 + r.IntN(4)}
	if c.Shard > 0 {
		c.Fill = r.IntN(6)
	}
	no := 2 + r.IntN(3)
	for o := 0; o < no; o++ {
		var steps []lockStep
		n := 3 + r.IntN(10)
		for i := 0; i < n; i++ {
			nk := 1 + r.IntN(2)
			keys := []int{}
			for len(keys) < nk {
				k := r.IntN(c.NKeys)
				dup := false
				for _, x := range keys {
					if x == k {
						dup = true
					}
				}
				if !dup {
					keys = append(keys, k)
				}
				if len(keys) >= c.NKeys {
					break
				}
			}
			ttl := pick(r, int64(1000), 5000, 60000, 600000)
			switch r.IntN(12) {
			case 0, 1, 2:
				steps = append(steps, lockStep{Op: "lock", Keys: keys, TTLms: ttl})
			case 3:
				steps = append(steps, lockStep{Op: "duallock", Keys: keys, TTLms: ttl})
			case 4, 5:
				steps = append(steps, lockStep{Op: "unlock", Keys: keys})
			case 6:
				steps = append(steps, lockStep{Op: "islocked", Keys: keys})
			case 7:
				steps = append(steps, lockStep{Op: "ttl", Keys: keys, TTLms: ttl})
			case 8:
				steps = append(steps, lockStep{Op: "others", Keys: keys})
			case 9:
				steps = append(steps, lockStep{Op: "foreign_unlock", Keys: keys, From: r.IntN(no)})
			default:
				steps = append(steps, lockStep{Op: "sleep", Ms: pick(r, int64(100), 900, 3000, 70000, 700000)})
			}
		}
		c.Owners = append(c.Owners, steps)
	}
	return c
}

type lockHolder struct {
	owner  int
	expiry time.Time
}

func runLockCase(c *lockCase) (vs []Violation, s *sim.Sim, hash string) {
	runCounter++
	dir := filepath.Join(RunDirBase, "l")
	s = sim.New(sim.Config{Seed: c.Seed, Policy: c.Policy, Sticky: c.Sticky, KeepLog: keepLog})
	w, err := sim.NewWorld(s, dir)
	if err != nil {
		return []Violation{{Class: "infra", Msg: err.Error()}}, s, ""
	}
	defer w.Close(false)
	w.ShardCap = c.Shard
	if c.Shard == 0 {
		w.ShardCap = 1000
	}
	w.Restart()
	l2 := sop.L2Cache(w.Proxy)
	inner := w.InnerL2()
	ctx := context.Background()
	tag := ""
	if c.Shard > 0 {
		tag = fmt.Sprintf("/shardcap%d", c.Shard)
	}
	// every owner keeps one LockKey object per key (its identity for that key)
	no := len(c.Owners)
	lk := make([][]*sop.LockKey, no)
	for o := range lk {
		names := make([]string, c.NKeys)
		for k := range names {
			names[k] = fmt.Sprintf("k%d", k)
		}
		lk[o] = l2.CreateLockKeys(names)
	}
	model := map[int]*lockHolder{}
	add := func(class, msg string) {
		for _, v := range vs {
			if v.Class == class+tag {
				return
			}
		}
		vs = append(vs, Violation{Class: class + tag, Msg: msg})
	}
	held := func(k int) *lockHolder {
		h := model[k]
		if h == nil || !s.Now().Before(h.expiry) {
			return nil
		}
		return h
	}
	// cross-check after every call: whoever the model says holds a key must still hold it
	invariant := func(after string) {
		for k := 0; k < c.NKeys; k++ {
			h := held(k)
			if h == nil {
				continue
			}
			ok, _ := inner.IsLocked(ctx, []*sop.LockKey{lk[h.owner][k]})
			if !ok {
				add("lock-lost-before-expiry", fmt.Sprintf("after %s: owner %d locked k%d until %v (now %v) and never unlocked it, but IsLocked says false", after, h.owner, k, h.expiry.Sub(sim.Epoch), s.Elapsed()))
				delete(model, k)
			}
		}
	}
	fillN := 0
	fillSeq := 0
	for o := range c.Owners {
		o := o
		s.Spawn(fmt.Sprintf("o%d", o), 0, func(t *sim.Task) {
			for si, st := range c.Owners[o] {
				keys := []*sop.LockKey{}
				for _, k := range st.Keys {
					keys = append(keys, lk[o][k])
				}
				ttl := time.Duration(st.TTLms) * time.Millisecond
				desc := fmt.Sprintf("owner %d step %d %s%v", o, si, st.Op, st.Keys)
				switch st.Op {
				case "sleep":
					s.Sleep(ctx, time.Duration(st.Ms)*time.Millisecond)
				case "lock", "duallock":
					var ok bool
					var err error
					if st.Op == "lock" {
						ok, _, err = l2.Lock(ctx, ttl, keys)
					} else {
						ok, _, err = l2.DualLock(ctx, ttl, keys)
					}
					now := s.Now()
					if err != nil {
						break
					}
					if ok {
						for _, k := range st.Keys {
							if h := held(k); h != nil && h.owner != o {
								add("two-holders", fmt.Sprintf("%s succeeded at %v although owner %d holds k%d until %v", desc, s.Elapsed(), h.owner, k, h.expiry.Sub(sim.Epoch)))
							}
						}
						for _, k := range st.Keys {
							if h := held(k); h != nil && h.owner == o {
								continue // re-entrant: implementation keeps the existing expiry
							}
							model[k] = &lockHolder{owner: o, expiry: now.Add(ttl)}
						}
					}
				case "unlock":
					l2.Unlock(ctx, keys)
					for _, k := range st.Keys {
						if h := held(k); h != nil && h.owner == o {
							delete(model, k)
						}
					}
				case "foreign_unlock":
					// a release request for keys this owner does not hold (its own lock ids)
					l2.Unlock(ctx, keys)
					for _, k := range st.Keys {
						if h := held(k); h != nil && h.owner == o {
							delete(model, k)
						} else if h != nil {
							if ok, _ := inner.IsLocked(ctx, []*sop.LockKey{lk[h.owner][k]}); !ok {
								add("foreign-unlock-released", fmt.Sprintf("%s: owner %d (not the holder) called Unlock(k%d) and the lock of holder %d (valid until %v) is gone", desc, o, k, h.owner, h.expiry.Sub(sim.Epoch)))
								delete(model, k)
							}
						}
					}
				case "islocked":
					ok, err := l2.IsLocked(ctx, keys)
					if err == nil && ok {
						for _, k := range st.Keys {
							if h := held(k); h == nil || h.owner != o {
								add("islocked-true-for-non-holder", fmt.Sprintf("%s returned true at %v but the model holder of k%d is %v", desc, s.Elapsed(), k, h))
							}
						}
					}
				case "ttl":
					ok, err := l2.IsLockedTTL(ctx, ttl, keys)
					now := s.Now()
					if err == nil && ok {
						for _, k := range st.Keys {
							if h := held(k); h == nil || h.owner != o {
								add("islocked-true-for-non-holder", fmt.Sprintf("%s (IsLockedTTL) returned true but the model holder of k%d is %v", desc, k, h))
							} else {
								h.expiry = now.Add(ttl)
							}
						}
					}
				case "others":
					names := []string{}
					for _, k := range st.Keys {
						names = append(names, lk[o][k].Key)
					}
					l2.IsLockedByOthers(ctx, names)
				}
				invariant(desc)
				for f := 0; f < c.Fill; f++ {
					fillN++
					l2.Set(ctx, fmt.Sprintf("filler-%d", fillN), "x", time.Hour)
					invariant(desc + " + unrelated cache Set")
					// an unrelated lock whose key lands in the same shard as one of the shared keys
					target := lk[o][fillN%c.NKeys].Key
					name := collidingName(l2, target, &fillSeq)
					fl := l2.CreateLockKeys([]string{name})
					l2.Lock(ctx, time.Hour, fl)
					invariant(desc + " + unrelated Lock(" + name + ") in the same shard")
				}
			}
		})
	}
	s.Run()
	for _, t := range s.Tasks() {
		if t.Panic != nil {
			add(panicClass(t.PanicSt), fmt.Sprintf("%s panicked: %v", t.Name, t.Panic))
		}
	}
	return vs, s, s.LogHash()
}

// collidingName returns a fresh lock name whose formatted key falls into the same shard of
// the in-memory lock table (fnv32a % 256) as target.
func collidingName(l2 sop.L2Cache, target string, seq *int) string {
	want := fnv32a(target) % 256
	for {
		*seq++
		name := fmt.Sprintf("fl-%d", *seq)
		if fnv32a(l2.FormatLockKey(name))%256 == want {
			return name
		}
	}
}

func fnv32a(s string) uint32 {
	h := uint32(2166136261)
	for i := 0; i < len(s); i++ {
		h ^= uint32(s[i])
		h *= 16777619
	}
	return h
}

func runC28(u *Unit) {
	n := 40
	for j := 0; j < n; j++ {
		c := genLockCase(u.Rng)
		curCase = c
		vs, s, hash := runLockCase(c)
		u.Rep.Evals++
		u.Rep.Ops += s.Seq()
		u.Rep.Steps += s.Steps()
		u.Rep.SimNs += int64(s.Elapsed())
		u.Rep.Hashes = append(u.Rep.Hashes, hash)
		for _, v := range vs {
			if v.Class == "infra" {
				u.Rep.Infra = v.Msg
				return
			}
			v.Payload = mustJSON(c)
			v.Hash = hash
			u.Rep.Violations = append(u.Rep.Violations, v)
		}
		if s.Switches > 0 {
			u.Rep.Sigs = append(u.Rep.Sigs, fmt.Sprintf("%x", fnv(fmt.Sprintf("%d|%x", c.Seed, s.SchedHash()))))
		}
		if len(u.Rep.Samples) == 0 && u.Index < 3 {
			u.Rep.Samples = append(u.Rep.Samples, map[string]any{"case": c, "context_switches": s.Switches, "simulated_s": s.Elapsed().Seconds(), "event_log_hash": hash})
		}
	}
}

func replayC28(payload json.RawMessage) []Violation {
	var c lockCase
	if err := json.Unmarshal(payload, &c); err != nil {
		return []Violation{{Class: "bad-replay-file", Msg: err.Error()}}
	}
	vs, _, hash := runLockCase(&c)
	for i := range vs {
		vs[i].Hash = hash
	}
	return vs
}

func minimiseC28(v Violation) Violation {
	var c lockCase
	if json.Unmarshal(v.Payload, &c) != nil {
		return v
	}
	fails := func(cand *lockCase) bool {
		vs, _, h := runLockCase(cand)
		for _, x := range vs {
			if x.Class == v.Class {
				v.Msg = x.Msg
				v.Hash = h
				return true
			}
		}
		return false
	}
	clone := func(c lockCase) lockCase {
		var n lockCase
		json.Unmarshal(mustJSON(c), &n)
		return n
	}
	if !fails(&c) {
		return v
	}
	best := c
	budget := 200
	changed := true
	for changed && budget > 0 {
		changed = false
		for o := range best.Owners {
			for i := 0; i < len(best.Owners[o]) && budget > 0; i++ {
				cand := clone(best)
				cand.Owners[o] = append(cand.Owners[o][:i], cand.Owners[o][i+1:]...)
				budget--
				if fails(&cand) {
					best = cand
					changed = true
					i--
					if minimiseCheckpoint != "" {
						cp := v
						cp.Payload = mustJSON(best)
						os.WriteFile(minimiseCheckpoint, mustJSON(cp), 0o644)
					}
				}
			}
		}
	}
	fails(&best)
	v.Payload = mustJSON(best)
	var n int
	for _, o := range best.Owners {
		n += len(o)
	}
	v.Msg += fmt.Sprintf("\n(minimised to %d steps: %s)", n, strings.ReplaceAll(string(mustJSON(best.Owners)), "\"", ""))
	return v
}

func init() {
	Register(&CheckDef{ID: "C28", Level: "exploration",
		Rule: "each evaluation = 2-4 owners (tasks) issuing 3-12 calls each of Lock / DualLock / Unlock / IsLocked / IsLockedTTL / IsLockedByOthers / Unlock-of-keys-held-by-someone-else over 1-4 shared keys with TTLs 1 s..10 min, simulated sleeps 100 ms..11 min (TTL expiry at any point), in-memory shard capacity in {default, 1, 2, 4} with unrelated cache writes in between (cache full), interleaved by the seeded scheduler; a lock-table model with simulated time runs in lockstep: a successful Lock on a key another owner holds unexpired = two holders; after every call every modelled holder must still be reported as holder (lock lost before expiry, foreign unlock). Spurious Lock failures are allowed. distinct_nontrivial = distinct (case, context-switch sequence)",
		Units: func(tier string) int {
			if tier == "thorough" {
				return 1600
			}
			return 96
		},
		Run: runC28, Replay: replayC28, Minimise: minimiseC28,
		Real:   []string{"cache.L2InMemoryCache lock service (Lock, DualLock, IsLocked, IsLockedTTL, IsLockedByOthers, Unlock, sharded map with eviction)"},
		Stub:   []string{"goroutine scheduling (each lock call is one atomic step; interleaving inside a call is not explored)", "wall clock (simulated)", "the Redis lock service is NOT exercised by this check (no Redis server or stub in this build)"},
		Assume: []string{"in-memory implementation only; adapters/redis/locker.go is not covered", "each L2 call executes atomically between two scheduler steps", "sampling, not proof"}})
}
