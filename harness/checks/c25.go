package checks

import (
	"bytes"
	"context"
	"encoding/json"
	"fmt"
	"os"
	"os/exec"
	"path/filepath"
	"strings"

	"github.com/sharedcode/sop"
	sopfs "github.com/sharedcode/sop/fs"

	"verif/harness/sim"
)

// C25: erasure-coded blobs survive up to p damaged shards, reads never crash, > p damaged =>
// error (never wrong bytes); a write succeeds exactly when at most p shard writes fail.
// C26: with repair enabled a successful read rewrites damaged shards; afterwards the blob
// tolerates p new failures.

type ecCase struct {
	D      int      `json:"d"`
	P      int      `json:"p"`
	Size   int      `json:"size"`
	Damage []string `json:"damage"`               // per shard: "", missing, trunc0, trunc1, trunc16, trunc17, trunc18, half, flip-payload, flip-meta
	Write  []bool   `json:"write_fail,omitempty"` // per shard: the write of this shard fails
	Repair bool     `json:"repair,omitempty"`
	Second []bool   `json:"second,omitempty"` // C26: shards removed after the repairing read
	Seed   uint64   `json:"seed"`
	Extra  int      `json:"extra,omitempty"` // further blobs written by the same Add call
}

var damageKinds = []string{"missing", "trunc0", "trunc1", "trunc16", "trunc17", "trunc18", "half", "flip-payload", "flip-meta", "flip-both", "garbage-head"}

// failingFileIO fails writes below given drive folders.
type failingFileIO struct {
	sopfs.FileIO
	failPrefix []string
}

func (f *failingFileIO) WriteFile(ctx context.Context, name string, data []byte, perm os.FileMode) error {
	for _, p := range f.failPrefix {
		if strings.HasPrefix(name, p) {
			return &os.PathError{Op: "write", Path: name, Err: fmt.Errorf("input/output error")}
		}
	}
	return f.FileIO.WriteFile(ctx, name, data, perm)
}

func ecPayload(n int, seed uint64) []byte {
	b := make([]byte, n)
	x := seed | 1
	for i := range b {
		x ^= x << 13
		x ^= x >> 7
		x ^= x << 17
		b[i] = byte(x)
	}
	return b
}

func runECCase(c *ecCase) (vs []Violation) {
	runCounter++
	dir := filepath.Join(RunDirBase, "e")
	os.RemoveAll(dir)
	s := sim.New(sim.Config{Seed: c.Seed, Policy: "seq"})
	w, err := sim.NewWorld(s, dir)
	if err != nil {
		return []Violation{{Class: "infra", Msg: err.Error()}}
	}
	defer w.Close(false)
	n := c.D + c.P
	drives := make([]string, n)
	for i := range drives {
		drives[i] = filepath.Join(dir, fmt.Sprintf("drive%d", i))
		os.MkdirAll(drives[i], 0o755)
	}
	tag := fmt.Sprintf("/d%dp%d", c.D, c.P)
	kinds := map[string]bool{}
	for _, k := range c.Damage {
		if k != "" {
			kinds[k] = true
		}
	}
	switch len(kinds) {
	case 0:
	case 1:
		for k := range kinds {
			tag += "/" + k
		}
	default:
		tag += "/mixed"
	}
	add := func(class, msg string) {
		vs = append(vs, Violation{Class: class + tag, Msg: msg})
	}
	cfg := map[string]sop.ErasureCodingConfig{"tbl": {DataShardsCount: c.D, ParityShardsCount: c.P, BaseFolderPathsAcrossDrives: drives, RepairCorruptedShards: c.Repair}}
	ctx := context.Background()
	data := ecPayload(c.Size, c.Seed)
	id := sop.UUID{1, 2, 3, 4, 5, 6, 7, 8, 9, 10, 11, 12, 13, 14, 15, byte(c.Size)}
	payload := []sop.BlobsPayload[sop.KeyValuePair[sop.UUID, []byte]]{{BlobTable: "tbl", Blobs: []sop.KeyValuePair[sop.UUID, []byte]{{Key: id, Value: data}}}}
	var extraIDs []sop.UUID
	for x := 0; x < c.Extra; x++ {
		xid := sop.UUID{byte(0xA0 + x), 2, 3, 4, 5, 6, 7, 8, 9, 10, 11, 12, 13, 14, 15, byte(c.Size)}
		extraIDs = append(extraIDs, xid)
		payload[0].Blobs = append(payload[0].Blobs, sop.KeyValuePair[sop.UUID, []byte]{Key: xid, Value: ecPayload(c.Size+1+x, c.Seed+uint64(x)+1)})
	}
	shardFile := func(i int) string {
		return filepath.Join(sopfs.DefaultToFilePath(filepath.Join(drives[i], "tbl"), id), fmt.Sprintf("%s_%d", id.String(), i))
	}
	guard := func(what string, f func() ([]byte, error)) (out []byte, err error, panicked bool) {
		defer func() {
			if r := recover(); r != nil {
				panicked = true
				add("panic/"+what, fmt.Sprintf("%s panicked (d=%d p=%d size=%d damage=%v): %v", what, c.D, c.P, c.Size, c.Damage, r))
			}
		}()
		out, err = f()
		return
	}
	// ---- write side
	var failP []string
	nfail := 0
	for i, f := range c.Write {
		if f {
			failP = append(failP, drives[i]+string(os.PathSeparator))
			nfail++
		}
	}
	fio := &failingFileIO{FileIO: sopfs.SimRealFileIO(sop.FileIOError), failPrefix: failP}
	bs, err := sopfs.NewBlobStoreWithEC(nil, fio, cfg)
	if err != nil {
		return []Violation{{Class: "infra", Msg: err.Error()}}
	}
	_, werr, pan := guard("Add", func() ([]byte, error) { return nil, bs.Add(ctx, payload) })
	if pan {
		return vs
	}
	if nfail > 0 {
		switch {
		case nfail <= c.P && werr != nil:
			add("write-fails-within-tolerance", fmt.Sprintf("Add with %d of %d shard writes failing (p=%d) returned error: %v", nfail, n, c.P, werr))
			return vs
		case nfail > c.P && werr == nil:
			add("write-succeeds-beyond-tolerance", fmt.Sprintf("Add with %d of %d shard writes failing (p=%d) returned success", nfail, n, c.P))
			return vs
		case werr != nil:
			return vs
		}
	} else if werr != nil {
		add("write-fails-without-faults", fmt.Sprintf("Add of %d bytes failed without any fault: %v", c.Size, werr))
		return vs
	}
	// the other blobs of the same Add call must be readable as well
	for x, xid := range extraIDs {
		got, rerr, pan := guard("GetOne", func() ([]byte, error) { return bs.GetOne(ctx, "tbl", xid) })
		if pan {
			return vs
		}
		if rerr != nil || string(got) != string(ecPayload(c.Size+1+x, c.Seed+uint64(x)+1)) {
			add("batch-blob-unreadable", fmt.Sprintf("blob #%d of a %d-blob Add (%d of %d shard writes failing, p=%d) reads back err=%v equal=%v", x+2, c.Extra+1, nfail, n, c.P, rerr, rerr == nil && string(got) == string(ecPayload(c.Size+1+x, c.Seed+uint64(x)+1))))
			return vs
		}
	}
	// originals (for C26 comparison)
	orig := make([][]byte, n)
	for i := range orig {
		orig[i], _ = os.ReadFile(shardFile(i))
	}
	// ---- damage
	damaged := nfail // shards whose write failed are missing
	for i, k := range c.Damage {
		if k == "" || (i < len(c.Write) && c.Write[i]) {
			continue
		}
		f := shardFile(i)
		b := orig[i]
		if b == nil {
			continue
		}
		damaged++
		switch k {
		case "missing":
			os.Remove(f)
		case "trunc0":
			os.WriteFile(f, nil, 0o644)
		case "trunc1", "trunc16", "trunc17", "trunc18":
			var l int
			fmt.Sscanf(k, "trunc%d", &l)
			if l >= len(b) {
				damaged--
				continue
			}
			os.WriteFile(f, b[:l], 0o644)
		case "half":
			if len(b)/2 >= len(b) {
				damaged--
				continue
			}
			os.WriteFile(f, b[:len(b)/2], 0o644)
		case "flip-payload":
			if len(b) <= 17 {
				damaged--
				continue
			}
			nb := append([]byte{}, b...)
			nb[17+(len(b)-17)/2] ^= 0x10
			os.WriteFile(f, nb, 0o644)
		case "flip-meta":
			nb := append([]byte{}, b...)
			nb[3] ^= 0x01
			os.WriteFile(f, nb, 0o644)
		case "flip-both":
			// checksum bytes and payload of the same shard file
			if len(b) <= 17 {
				damaged--
				continue
			}
			nb := append([]byte{}, b...)
			nb[5] ^= 0x40
			nb[17+(len(b)-17)/2] ^= 0x10
			os.WriteFile(f, nb, 0o644)
		case "garbage-head":
			// the first bytes of the file overwritten (checksum and the start of the payload)
			if len(b) <= 17 {
				damaged--
				continue
			}
			nb := append([]byte{}, b...)
			for i := 1; i < len(nb) && i < 40; i++ {
				nb[i] = ^nb[i] // every byte differs from what was there (a fixed pattern can coincide with a 1-byte payload)
			}
			os.WriteFile(f, nb, 0o644)
		}
	}
	reader, _ := sopfs.NewBlobStoreWithEC(nil, sopfs.SimRealFileIO(sop.FileIOError), cfg)
	got, rerr, pan := guard("GetOne", func() ([]byte, error) { return reader.GetOne(ctx, "tbl", id) })
	if pan {
		return vs
	}
	switch {
	case damaged <= c.P && rerr != nil:
		add("read-fails-within-tolerance", fmt.Sprintf("%d of %d shards damaged %v (p=%d, size %d): GetOne returned error: %v", damaged, n, c.Damage, c.P, c.Size, rerr))
		return vs
	case rerr == nil && !bytes.Equal(got, data):
		cls := "wrong-bytes-within-tolerance"
		if damaged > c.P {
			cls = "wrong-bytes-beyond-tolerance"
		}
		add(cls, fmt.Sprintf("%d of %d shards damaged %v (p=%d, size %d): GetOne returned %d bytes that differ from the %d stored bytes, no error", damaged, n, c.Damage, c.P, c.Size, len(got), len(data)))
		return vs
	}
	// ---- C26: repair
	if c.Repair && damaged <= c.P && rerr == nil {
		for i := range orig {
			if orig[i] == nil {
				continue
			}
			now, err := os.ReadFile(shardFile(i))
			if err != nil || !bytes.Equal(now, orig[i]) {
				add("shard-not-repaired", fmt.Sprintf("repair enabled; after a successful read with damage %v shard %d is still not identical to a fresh encode (err=%v, %d vs %d bytes)", c.Damage, i, err, len(now), len(orig[i])))
				return vs
			}
		}
		for i, rm := range c.Second {
			if rm {
				os.Remove(shardFile(i))
			}
		}
		got2, err2, pan := guard("GetOne-after-repair", func() ([]byte, error) { return reader.GetOne(ctx, "tbl", id) })
		if pan {
			return vs
		}
		if err2 != nil || !bytes.Equal(got2, data) {
			add("not-tolerant-after-repair", fmt.Sprintf("after the repairing read, removing p=%d further shards %v makes the read fail: err=%v", c.P, c.Second, err2))
		}
	}
	return vs
}

var ecConfigs = [][2]int{{1, 1}, {2, 1}, {2, 2}, {3, 2}, {4, 2}}

func ecSizesFor(d int, tier string) []int {
	if tier != "thorough" {
		return []int{1, d + 1, 1025, 65539}
	}
	return ecSizes(d)
}

func ecSizes(d int) []int {
	return []int{1, 2, d - 1, d, d + 1, 1023, 1024, 1025, 65539} // an empty blob is rejected by Add ("not enough data"): not a case of this property
}

func runECUnit(repair bool) func(u *Unit) {
	return func(u *Unit) {
		r := u.Rng
		cfg := ecConfigs[u.Index%len(ecConfigs)]
		d, p := cfg[0], cfg[1]
		n := d + p
		sizes := ecSizesFor(d, u.Tier)
		if repair && u.Tier != "thorough" {
			sizes = []int{1, d + 1, 1025, 4099} // the 64 KiB size runs in child processes: thorough tier only for C26
		}
		size := sizes[(u.Index/len(ecConfigs))%len(sizes)]
		if size < 1 {
			size = 1
		}
		run := func(c *ecCase) bool {
			curCase = c
			var vs []Violation
			if c.Size >= 16384 {
				vs = runECCaseIsolated(c) // the codec spawns goroutines for large shards: a panic there kills the process
			} else {
				vs = runECCase(c)
			}
			u.Rep.Evals++
			u.Rep.Sigs = append(u.Rep.Sigs, fmt.Sprintf("%x", fnv(string(mustJSON(c)))))
			for _, v := range vs {
				if strings.HasPrefix(v.Class, "infra") {
					u.Rep.Infra = v.Msg
					return false
				}
				v.Payload = mustJSON(c)
				u.Rep.Violations = append(u.Rep.Violations, v)
			}
			return true
		}
		// every subset of shards
		for mask := 0; mask < 1<<uint(n); mask++ {
			cnt := 0
			for i := 0; i < n; i++ {
				if mask&(1<<uint(i)) != 0 {
					cnt++
				}
			}
			if repair && (cnt == 0 || cnt > p) {
				continue
			}
			variants := [][]string{}
			if cnt == 0 {
				variants = append(variants, make([]string, n))
			} else {
				// uniform kinds, plus mixed kinds drawn from the PRNG
				for _, k := range damageKinds {
					dm := make([]string, n)
					for i := 0; i < n; i++ {
						if mask&(1<<uint(i)) != 0 {
							dm[i] = k
						}
					}
					variants = append(variants, dm)
				}
				for m := 0; m < 3; m++ {
					dm := make([]string, n)
					for i := 0; i < n; i++ {
						if mask&(1<<uint(i)) != 0 {
							dm[i] = damageKinds[r.IntN(len(damageKinds))]
						}
					}
					variants = append(variants, dm)
				}
			}
			for _, dm := range variants {
				c := &ecCase{D: d, P: p, Size: size, Damage: dm, Repair: repair, Seed: uint64(u.Index)*977 + uint64(mask)}
				if repair {
					// every subset of p new failures after the repair
					for m2 := 0; m2 < 1<<uint(n); m2++ {
						c2 := 0
						sec := make([]bool, n)
						for i := 0; i < n; i++ {
							if m2&(1<<uint(i)) != 0 {
								c2++
								sec[i] = true
							}
						}
						if c2 != p {
							continue
						}
						cc := *c
						cc.Second = sec
						if !run(&cc) {
							return
						}
					}
				} else if !run(c) {
					return
				}
			}
			if !repair {
				// write side: this subset of shard writes fails
				wf := make([]bool, n)
				for i := 0; i < n; i++ {
					wf[i] = mask&(1<<uint(i)) != 0
				}
				if cnt > 0 && !run(&ecCase{D: d, P: p, Size: size, Damage: make([]string, n), Write: wf, Seed: uint64(u.Index)*977 + uint64(mask), Extra: mask % 3}) {
					return
				}
			}
		}
		u.Rep.Exhaustive = true
		if len(u.Rep.Samples) == 0 {
			u.Rep.Samples = append(u.Rep.Samples, map[string]any{"d": d, "p": p, "size": size, "subsets": 1 << uint(n), "damage_kinds": damageKinds})
		}
	}
}

func replayEC(payload json.RawMessage) []Violation {
	var c ecCase
	if err := json.Unmarshal(payload, &c); err != nil {
		return []Violation{{Class: "bad-replay-file", Msg: err.Error()}}
	}
	if c.Size >= 16384 {
		return runECCaseIsolated(&c)
	}
	return runECCase(&c)
}

// runECCaseIsolated executes the case in a child process and turns a crash of that process
// into a violation ("a read never crashes the process").
func runECCaseIsolated(c *ecCase) []Violation {
	exe, _ := os.Executable()
	cmd := exec.Command(exe, "eccase")
	cmd.Stdin = bytes.NewReader(mustJSON(c))
	var out, errb bytes.Buffer
	cmd.Stdout = &out
	cmd.Stderr = &errb
	err := cmd.Run()
	if err == nil {
		var vs []Violation
		json.Unmarshal(out.Bytes(), &vs)
		return vs
	}
	msg := errb.String()
	frame := "unknown"
	for _, line := range strings.Split(msg, "\n") {
		if strings.HasPrefix(line, "github.com/") {
			frame = line
			if j := strings.LastIndex(frame, "("); j > 0 {
				frame = frame[:j]
			}
			frame = strings.TrimPrefix(frame, "github.com/")
			break
		}
	}
	first := msg
	if i := strings.Index(first, "\n"); i > 0 {
		first = first[:i]
	}
	kinds := map[string]bool{}
	for _, k := range c.Damage {
		if k != "" {
			kinds[k] = true
		}
	}
	kt := "mixed"
	if len(kinds) == 1 {
		for k := range kinds {
			kt = k
		}
	}
	return []Violation{{Class: fmt.Sprintf("process-crash/%s/d%dp%d/%s", frame, c.D, c.P, kt),
		Msg: fmt.Sprintf("the process executing this case died (%v): %s; d=%d p=%d size=%d damage=%v", err, first, c.D, c.P, c.Size, c.Damage)}}
}

// ECCaseMain is the child-process entry: case JSON on stdin, violations JSON on stdout.
func ECCaseMain() int {
	var c ecCase
	if err := json.NewDecoder(os.Stdin).Decode(&c); err != nil {
		return 2
	}
	vs := runECCase(&c)
	cleanupRunDir()
	os.Stdout.Write(mustJSON(vs))
	return 0
}

func init() {
	units := func(tier string) int {
		if tier != "thorough" {
			return len(ecConfigs) * 4
		}
		return len(ecConfigs) * 9
	}
	Register(&CheckDef{ID: "C25", Level: "fault_enumeration",
		Rule:    "each unit = one (d,p) in {(1,1),(2,1),(2,2),(3,2),(4,2)} x one blob size in {0,1,d-1,d,d+1,1023,1024,1025,65539}; ALL subsets of the d+p shard files x damage kind (missing, truncated to 0/1/16/17/18 bytes/half, payload bit flip, metadata bit flip, both in one shard, first 40 bytes overwritten; each kind uniformly plus 3 PRNG-mixed assignments per subset) on fs.NewBlobStoreWithEC over real files; plus ALL subsets of failing shard writes on an Add call carrying 1-3 blobs. Oracle: <= p damaged => exact bytes; > p => error or exact bytes, never different bytes; any panic is a violation; Add fails iff more than p shard writes fail. distinct_nontrivial = distinct (d,p,size,damage/write pattern)",
		Exhaust: "all shard subsets x uniform damage kinds for the listed (d,p) and sizes (mixed kinds are sampled)",
		Units:   units, Run: runECUnit(false), Replay: replayEC, UnitLimit: 1200e9,
		Real:   []string{"fs.BlobStoreWithEC (Add, GetOne incl. shard metadata handling), fs/erasure (encode, decode, reconstruct), klauspost/reedsolomon"},
		Stub:   []string{"TaskRunner concurrency (shard I/O tasks run inline, so a panic inside a shard task surfaces in the caller instead of killing the process)", "drives = directories on tmpfs"},
		Assume: []string{"no schedule dimension: damage is applied between operations", "shard write failures are whole-file failures"}})
	Register(&CheckDef{ID: "C26", Level: "fault_enumeration",
		Rule:    "repair enabled: for each (d,p) and size as in C25, ALL subsets of 1..p damaged shards x damage kinds; after one successful GetOne every shard file must be byte-identical to the freshly encoded shard, and for ALL subsets of p further removed shards the blob must still read back exactly. distinct_nontrivial = distinct (d,p,size,damage pattern,second failure set)",
		Exhaust: "all damage subsets within parity x all second-failure subsets of size p for the listed (d,p) and sizes",
		Units:   units, Run: runECUnit(true), Replay: replayEC, UnitLimit: 1200e9,
		Real:   []string{"fs.BlobStoreWithEC GetOne with RepairCorruptedShards, fs/erasure"},
		Stub:   []string{"TaskRunner concurrency (inline)", "drives = directories on tmpfs"},
		Assume: []string{"no schedule dimension"}})
}
