// Package checks holds the workloads, oracles and drivers of the individual property checks.
package checks

import (
	"context"
	"encoding/json"
	"fmt"
	"os"
	"path/filepath"
	"runtime/debug"
	"sort"
	"strconv"
	"strings"
	"time"

	"github.com/sharedcode/sop"
	"github.com/sharedcode/sop/btree"
	"github.com/sharedcode/sop/infs"

	"verif/harness/sim"
)

// ---- case description (pure data; executing a Case is deterministic) -------------------------

// StoreSpec describes a store of the workload.
type StoreSpec struct {
	Name      string `json:"name"`
	Slot      int    `json:"slot"`
	Unique    bool   `json:"unique"`
	ValueMode int    `json:"vmode"` // 0 in-node, 1 separate segment, 2 actively persisted, 3 globally cached, 4 actively persisted + globally cached
	Balance   bool   `json:"balance,omitempty"`
	CacheMode int    `json:"cmode,omitempty"` // 0 defaults, 1 minimum durations, 2 long + TTL
	Desc      string `json:"desc,omitempty"`
}

// Op is one B-tree call.
type Op struct {
	K   string `json:"k"`             // add, addif, upsert, update, updkey, remove, find, get, scan, rscan, count, first, last
	S   int    `json:"s"`             // store index
	Key int    `json:"key,omitempty"` //
	Val string `json:"val,omitempty"`
	N   int    `json:"n,omitempty"`   // scan length (0 = all)
	Hi  int    `json:"hi,omitempty"`  // range upper bound (range/rrange: keys in [Key,Hi])
	Pad int    `json:"pad,omitempty"` // value padded to this many bytes
}

// Txn is one client transaction.
type Txn struct {
	Name     string `json:"name"`
	Node     int    `json:"node,omitempty"`
	Mode     string `json:"mode"`               // w, r, n
	MaxTime  int    `json:"maxtime,omitempty"`  // seconds (0 = 15 min default)
	Deadline int    `json:"deadline,omitempty"` // seconds of caller context deadline (0 = none)
	Create   []int  `json:"create,omitempty"`   // stores opened with NewBtree (others: OpenBtree)
	Ops      []Op   `json:"ops"`
	End      string `json:"end"` // commit, rollback, abandon
	HoldAt   int    `json:"holdat,omitempty"`
	HoldFor  string `json:"holdfor,omitempty"`
	// CommitAfter: the transaction finishes its body, then waits for the named transaction to
	// end before it calls Commit (staggered commits: bodies overlap, commits do not).
	CommitAfter string `json:"commit_after,omitempty"`
	// Retries: re-run the whole transaction on a commit conflict up to this many times.
	Retries int `json:"retries,omitempty"`
}

// Phase is one step of a run.
type Phase struct {
	Kind    string `json:"kind"` // group, advance, restart, observe
	Txns    []Txn  `json:"txns,omitempty"`
	Seconds int    `json:"seconds,omitempty"`
	Label   string `json:"label,omitempty"`
}

// Case is one complete simulated execution.
type Case struct {
	Seed    uint64          `json:"seed"`
	Policy  string          `json:"policy,omitempty"`
	Sticky  float64         `json:"sticky,omitempty"`
	HashMod int             `json:"hashmod,omitempty"`
	L1Max   int             `json:"l1max,omitempty"`
	Shard   int             `json:"shard,omitempty"`
	Stores  []StoreSpec     `json:"stores"`
	Phases  []Phase         `json:"phases"`
	Faults  []sim.FaultSpec `json:"faults,omitempty"`
	Rates   []sim.Rates     `json:"rates,omitempty"`
	MaxRand int             `json:"maxrand,omitempty"`
	NoLat   bool            `json:"nolat,omitempty"`
	// BackScan: observers also scan backwards (Last/Previous). Only sequential model checks ask
	// for it: on a tree corrupted by the known concurrency defects Previous can loop for ever
	// inside sop without ever returning, which no in-process watchdog can interrupt.
	BackScan bool `json:"backscan,omitempty"`
	KeepLog  bool `json:"keeplog,omitempty"`
	// Note: free-form tag attached by an enumerating check (e.g. the commit stage a crash point falls in).
	Note  string `json:"note,omitempty"`
	Audit bool   `json:"audit,omitempty"`
	// Monitor: "handles" records every registry handle transition written to disk (C37).
	Monitor string `json:"monitor,omitempty"`
	// FaultPhase restricts faults to the group phase with this index (-1/0 = all).
	FaultPhase int `json:"faultphase,omitempty"`
}

// ---- results ---------------------------------------------------------------------------------

// KV is a key/value pair read from a store.
type KV struct {
	K int    `json:"k"`
	V string `json:"v"`
}

// OpResult is what one B-tree call returned.
type OpResult struct {
	OK    bool   `json:"ok"`
	Err   string `json:"err,omitempty"`
	Val   string `json:"val,omitempty"`
	Items []KV   `json:"items,omitempty"`
	Count int64  `json:"count,omitempty"`
	Seq   int    `json:"seq"`
}

// TxnResult is the recorded history of one transaction attempt.
type TxnResult struct {
	Name       string     `json:"name"`
	Phase      int        `json:"phase"`
	Mode       string     `json:"mode"`
	Attempt    int        `json:"attempt"`
	TID        string     `json:"tid,omitempty"`
	BeginSeq   int        `json:"begin_seq"`
	CommitSeq  int        `json:"commit_seq"` // event seq when Commit was invoked (0 = never)
	EndSeq     int        `json:"end_seq"`
	BeginErr   string     `json:"begin_err,omitempty"`
	OpenErr    string     `json:"open_err,omitempty"`
	Ops        []OpResult `json:"ops"`
	Outcome    string     `json:"outcome"` // committed, failed, rolledback, abandoned, dead, aborted
	CommitErr  string     `json:"commit_err,omitempty"`
	SimStart   int64      `json:"sim_start"` // ns since epoch
	SimCommit  int64      `json:"sim_commit"`
	SimEnd     int64      `json:"sim_end"`
	LatAfter   int64      `json:"-"`
	Panic      string     `json:"panic,omitempty"`
	OpsDone    int        `json:"ops_done"`
	ClockJumps int        `json:"clock_jumps,omitempty"`
}

// Dump is the privileged observer's view of one store.
type Dump struct {
	Exists  bool          `json:"exists"`
	Items   []KV          `json:"items"`
	Back    []KV          `json:"-"`
	Count   int64         `json:"count"`
	Err     string        `json:"err,omitempty"`
	Info    sop.StoreInfo `json:"-"`
	ScanErr string        `json:"scan_err,omitempty"`
}

// Observation is the observer's view of all stores at a quiescent point.
type Observation struct {
	Phase  int             `json:"phase"`
	Label  string          `json:"label"`
	Stores map[string]Dump `json:"stores"`
	List   []string        `json:"list"`
	Err    string          `json:"err,omitempty"`
	Files  []string        `json:"-"`
}

// Result of executing a Case.
type Result struct {
	Txns       []TxnResult
	Obs        []Observation
	Crashed    bool
	Sim        *sim.Sim
	Hash       string
	Steps      int
	Hang       bool
	InfraErr   string
	FilesAtEnd []string
	Audit      *Audit
	Handles    *handleMonitor
}

// ---- execution -------------------------------------------------------------------------------

// RealRunDir is this process' private scratch directory. RunDirBase is the path under which
// run directories are named: once InitRunDir has made RealRunDir the working directory it is
// "/proc/self/cwd", a path STRING that is the same in every process and run. sop derives cache
// and lock keys from the store folder path, and the in-memory L2 cache picks a shard by hashing
// the key: with the process id in the path, which entries collide in a 1-4 entry shard (and so
// what gets evicted) changed from process to process - found by the determinism self-test.
var RealRunDir = func() string {
	if fi, err := os.Stat("/dev/shm"); err == nil && fi.IsDir() {
		return fmt.Sprintf("/dev/shm/verif-%d", os.Getpid())
	}
	return filepath.Join(os.TempDir(), fmt.Sprintf("verif-%d", os.Getpid()))
}()

var RunDirBase = RealRunDir

func InitRunDir() {
	// file arguments given relative to the caller's directory must keep working after the chdir
	for i, a := range os.Args {
		if i > 0 && a != "" && !filepath.IsAbs(a) {
			if fi, err := os.Stat(a); err == nil && !fi.IsDir() {
				if abs, err := filepath.Abs(a); err == nil {
					os.Args[i] = abs
				}
			}
		}
	}
	if err := os.MkdirAll(RealRunDir, 0o755); err != nil {
		return
	}
	if err := os.Chdir(RealRunDir); err != nil {
		return
	}
	if _, err := os.Stat("/proc/self/cwd"); err == nil {
		RunDirBase = "/proc/self/cwd"
	}
}

func cleanupRunDir() {
	os.Chdir("/")
	os.RemoveAll(RealRunDir)
}

// CleanupRunDir removes this process' scratch directory (called on every normal exit).
func CleanupRunDir() { cleanupRunDir() }

// SweepStaleRunDirs removes scratch directories left behind by processes that are gone
// (workers that had to be killed after a hang inside sop cannot clean up after themselves).
func SweepStaleRunDirs() {
	base := filepath.Dir(RealRunDir)
	ents, err := os.ReadDir(base)
	if err != nil {
		return
	}
	for _, e := range ents {
		name := e.Name()
		if !strings.HasPrefix(name, "verif-") || !e.IsDir() {
			continue
		}
		pid, err := strconv.Atoi(strings.TrimPrefix(name, "verif-"))
		if err != nil || pid == os.Getpid() {
			continue
		}
		if _, err := os.Stat(fmt.Sprintf("/proc/%d", pid)); err == nil {
			continue // still running
		}
		os.RemoveAll(filepath.Join(base, name))
	}
}

var runCounter int

// scanCap bounds every scan made by the harness (a corrupted tree can make Next/Previous cycle).
const scanCap = 5000

// Env is a running simulated system.
type Env struct {
	C      *Case
	S      *sim.Sim
	W      *sim.World
	Folder string
	Res    *Result
	phase  int
}

func (c *Case) simConfig() sim.Config {
	return sim.Config{Seed: c.Seed, Policy: c.Policy, Sticky: c.Sticky, Faults: c.Faults, Rates: c.Rates,
		MaxRand: c.MaxRand, NoLat: c.NoLat, KeepLog: keepLog || c.KeepLog}
}

var keepLog = os.Getenv("VERIF_KEEPLOG") != ""

// NewEnv creates the simulator, world and store folder for a case.
func NewEnv(c *Case) (*Env, error) {
	runCounter++
	dir := filepath.Join(RunDirBase, "r") // one run at a time per process: the name (and so every key derived from it) is fixed
	os.RemoveAll(dir)
	s := sim.New(c.simConfig())
	w, err := sim.NewWorld(s, dir)
	if err != nil {
		return nil, err
	}
	if c.L1Max > 0 {
		w.L1Min, w.L1Max = 1, c.L1Max
	} else {
		w.L1Min, w.L1Max = 32, 64
	}
	if c.Shard > 0 {
		w.ShardCap = c.Shard
	} else {
		w.ShardCap = 1000
	}
	w.Restart()
	w.Incarnation = 0
	e := &Env{C: c, S: s, W: w, Folder: filepath.Join(dir, "data"), Res: &Result{Sim: s}}
	os.MkdirAll(e.Folder, 0o755)
	return e, nil
}

// Close tears the environment down.
func (e *Env) Close() { e.W.Close(os.Getenv("VERIF_KEEPDIR") != "") }

func (e *Env) txOptions(mode string, maxTime int) sop.TransactionOptions {
	m := sop.ForWriting
	switch mode {
	case "r":
		m = sop.ForReading
	case "n":
		m = sop.NoCheck
	}
	mt := time.Duration(maxTime) * time.Second
	if maxTime == 0 {
		mt = 15 * time.Minute
	}
	hm := e.C.HashMod
	if hm == 0 {
		hm = 4
	}
	return sop.TransactionOptions{StoresFolders: []string{e.Folder}, CacheType: sop.InMemory, Mode: m, MaxTime: mt, RegistryHashModValue: hm}
}

func storeOptions(sp StoreSpec) sop.StoreOptions {
	so := sop.StoreOptions{Name: sp.Name, SlotLength: sp.Slot, IsUnique: sp.Unique, LeafLoadBalancing: sp.Balance, Description: sp.Desc}
	switch sp.ValueMode {
	case 0:
		so.IsValueDataInNodeSegment = true
	case 1:
	case 2:
		so.IsValueDataActivelyPersisted = true
	case 3:
		so.IsValueDataGloballyCached = true
	case 4:
		so.IsValueDataActivelyPersisted = true
		so.IsValueDataGloballyCached = true
	}
	switch sp.CacheMode {
	case 1:
		so.CacheConfig = sop.NewStoreCacheConfig(time.Minute, false)
	case 2:
		so.CacheConfig = sop.NewStoreCacheConfig(30*time.Minute, true)
	}
	return so
}

func errStr(err error) string {
	if err == nil {
		return ""
	}
	return err.Error()
}

type b3 = btree.BtreeInterface[int, string]

// runTxn executes one transaction program through the public API.
func (e *Env) runTxn(t *sim.Task, tx *Txn, phase, attempt int) *TxnResult {
	s := e.S
	r := &TxnResult{Name: tx.Name, Phase: phase, Mode: tx.Mode, Attempt: attempt, Outcome: "aborted"}
	r.SimStart = int64(s.Elapsed())
	defer func() { r.SimEnd = int64(s.Elapsed()) }()
	var ctx context.Context
	var cancel context.CancelFunc
	ctx, cancel = s.Context(time.Duration(tx.Deadline) * time.Second)
	defer cancel()
	s.Op("mark.begin", tx.Name)
	r.BeginSeq = s.Seq()
	if tx.Mode == "x" {
		// administrative calls that take no transaction (store removal)
		for i := range tx.Ops {
			op := &tx.Ops[i]
			or := OpResult{}
			switch op.K {
			case "rmstore":
				err := infs.RemoveBtree(ctx, e.C.Stores[op.S].Name, []string{e.Folder}, nil, sop.InMemory)
				or.OK = err == nil
				or.Err = errStr(err)
			default:
				or.Err = "unknown admin op " + op.K
			}
			or.Seq = s.Seq()
			r.Ops = append(r.Ops, or)
			r.OpsDone++
		}
		r.Outcome = "committed"
		r.EndSeq = s.Seq()
		return r
	}
	trans, err := infs.NewTransaction(ctx, e.txOptions(tx.Mode, tx.MaxTime))
	if err != nil {
		r.BeginErr = err.Error()
		r.EndSeq = s.Seq()
		return r
	}
	r.TID = trans.GetID().String()
	if err := trans.Begin(ctx); err != nil {
		r.BeginErr = err.Error()
		r.EndSeq = s.Seq()
		return r
	}
	stores := map[int]b3{}
	open := func(idx int) (b3, error) {
		if b, ok := stores[idx]; ok {
			return b, nil
		}
		sp := e.C.Stores[idx]
		create := false
		for _, c := range tx.Create {
			if c == idx {
				create = true
			}
		}
		var b b3
		var err error
		if gerr := e.slotGuard(sp.Name); gerr != nil {
			return nil, gerr
		}
		if create {
			b, err = infs.NewBtree[int, string](ctx, storeOptions(sp), trans, nil)
		} else {
			b, err = infs.OpenBtree[int, string](ctx, sp.Name, trans, nil)
		}
		if err != nil {
			return nil, err
		}
		stores[idx] = b
		return b, nil
	}
	// stores listed in Create are created up front even when no op touches them
	for _, c := range tx.Create {
		if _, err := open(c); err != nil {
			r.OpenErr = err.Error()
			r.EndSeq = s.Seq()
			if trans.HasBegun() {
				trans.Rollback(ctx)
			}
			return r
		}
	}
	aborted := false
	for i := range tx.Ops {
		op := &tx.Ops[i]
		b, err := open(op.S)
		if err != nil {
			r.OpenErr = err.Error()
			aborted = true
			break
		}
		or := e.doOp(ctx, b, op)
		or.Seq = s.Seq()
		r.Ops = append(r.Ops, or)
		r.OpsDone++
		if or.Err != "" {
			// an operation error ends the program: the client rolls back
			aborted = true
			break
		}
	}
	if aborted {
		if trans.HasBegun() {
			trans.Rollback(ctx)
		}
		r.EndSeq = s.Seq()
		return r
	}
	switch tx.End {
	case "commit":
		if tx.CommitAfter != "" {
			s.WaitDone(tx.CommitAfter)
		}
		s.Op("mark.commit", tx.Name)
		r.CommitSeq = s.Seq()
		r.SimCommit = int64(s.Elapsed())
		jumps := s.ClockJumps
		err := trans.Commit(ctx)
		r.ClockJumps = s.ClockJumps - jumps
		if err != nil {
			r.CommitErr = err.Error()
			r.Outcome = "failed"
		} else {
			r.Outcome = "committed"
		}
	case "rollback":
		err := trans.Rollback(ctx)
		r.Outcome = "rolledback"
		r.CommitErr = errStr(err)
	default:
		r.Outcome = "abandoned"
	}
	s.Op("mark.end", tx.Name)
	r.EndSeq = s.Seq()
	return r
}

func (e *Env) doOp(ctx context.Context, b b3, op *Op) (or OpResult) {
	var ok bool
	var err error
	if op.Pad > 0 {
		cp := *op
		cp.Val = padVal(op.Val, op.Pad)
		cp.Pad = 0
		op = &cp
	}
	switch op.K {
	case "add":
		ok, err = b.Add(ctx, op.Key, op.Val)
	case "addif":
		ok, err = b.AddIfNotExist(ctx, op.Key, op.Val)
	case "upsert":
		ok, err = b.Upsert(ctx, op.Key, op.Val)
	case "update":
		ok, err = b.Update(ctx, op.Key, op.Val)
	case "updkey":
		ok, err = b.UpdateKey(ctx, op.Key)
	case "updcur": // Find + UpdateCurrentValue
		ok, err = b.Find(ctx, op.Key, false)
		if ok && err == nil {
			ok, err = b.UpdateCurrentValue(ctx, op.Val)
		}
	case "rmcur": // Find + RemoveCurrentItem
		ok, err = b.Find(ctx, op.Key, false)
		if ok && err == nil {
			ok, err = b.RemoveCurrentItem(ctx)
		}
	case "remove":
		ok, err = b.Remove(ctx, op.Key)
	case "find":
		ok, err = b.Find(ctx, op.Key, false)
	case "get": // Find + GetCurrentValue
		ok, err = b.Find(ctx, op.Key, true)
		if ok && err == nil {
			or.Val, err = b.GetCurrentValue(ctx)
			or.Val = unpad(or.Val)
		}
	case "count":
		or.Count = b.Count()
		ok = true
	case "scan", "rscan":
		fwd := op.K == "scan"
		if fwd {
			ok, err = b.First(ctx)
		} else {
			ok, err = b.Last(ctx)
		}
		n := 0
		for ok && err == nil {
			var v string
			k := b.GetCurrentKey().Key
			v, err = b.GetCurrentValue(ctx)
			if err != nil {
				break
			}
			or.Items = append(or.Items, KV{k, unpad(v)})
			n++
			if op.N > 0 && n >= op.N {
				break
			}
			if n > scanCap {
				err = fmt.Errorf("scan does not terminate (more than %d items returned)", scanCap)
				break
			}
			if fwd {
				ok, err = b.Next(ctx)
			} else {
				ok, err = b.Previous(ctx)
			}
		}
		ok = true
	case "range": // ascending range scan [Key,Hi] starting from a Find that may miss
		_, err = b.Find(ctx, op.Key, true)
		if err != nil {
			break
		}
		cur := b.GetCurrentKey()
		has := !cur.ID.IsNil()
		if has && cur.Key < op.Key {
			has, err = b.Next(ctx)
		}
		for has && err == nil {
			k := b.GetCurrentKey().Key
			if k > op.Hi {
				break
			}
			var v string
			v, err = b.GetCurrentValue(ctx)
			if err != nil {
				break
			}
			or.Items = append(or.Items, KV{k, unpad(v)})
			has, err = b.Next(ctx)
		}
		ok = true
	case "rrange": // descending range scan [Key,Hi] from FindInDescendingOrder(Hi)
		_, err = b.FindInDescendingOrder(ctx, op.Hi)
		if err != nil {
			break
		}
		cur := b.GetCurrentKey()
		has := !cur.ID.IsNil()
		if has && cur.Key > op.Hi {
			has, err = b.Previous(ctx)
		}
		for has && err == nil {
			k := b.GetCurrentKey().Key
			if k < op.Key {
				break
			}
			var v string
			v, err = b.GetCurrentValue(ctx)
			if err != nil {
				break
			}
			or.Items = append(or.Items, KV{k, unpad(v)})
			has, err = b.Previous(ctx)
		}
		ok = true
	case "findfirst": // Find(first) then walk forward over the equal keys
		ok, err = b.Find(ctx, op.Key, true)
		has := ok
		for has && err == nil {
			k := b.GetCurrentKey().Key
			if k != op.Key {
				break
			}
			var v string
			v, err = b.GetCurrentValue(ctx)
			if err != nil {
				break
			}
			or.Items = append(or.Items, KV{k, unpad(v)})
			has, err = b.Next(ctx)
		}
	case "finddesc": // FindInDescendingOrder then walk backward over the equal keys
		ok, err = b.FindInDescendingOrder(ctx, op.Key)
		has := ok
		for has && err == nil {
			k := b.GetCurrentKey().Key
			if k != op.Key {
				break
			}
			var v string
			v, err = b.GetCurrentValue(ctx)
			if err != nil {
				break
			}
			or.Items = append(or.Items, KV{k, unpad(v)})
			has, err = b.Previous(ctx)
		}
	case "findid": // FindWithID on the N-th duplicate of Key
		ok, err = b.Find(ctx, op.Key, true)
		var ids []sop.UUID
		has := ok
		for has && err == nil {
			ck := b.GetCurrentKey()
			if ck.Key != op.Key {
				break
			}
			var v string
			v, err = b.GetCurrentValue(ctx)
			if err != nil {
				break
			}
			ids = append(ids, ck.ID)
			or.Items = append(or.Items, KV{ck.Key, unpad(v)})
			has, err = b.Next(ctx)
		}
		if err == nil && len(ids) > 0 {
			want := op.N % len(ids)
			ok, err = b.FindWithID(ctx, op.Key, ids[want])
			if ok && err == nil {
				or.Val, err = b.GetCurrentValue(ctx)
				or.Val = unpad(or.Val)
				or.Count = int64(want)
			}
		}
	default:
		err = fmt.Errorf("unknown op %q", op.K)
	}
	or.OK = ok
	or.Err = errStr(err)
	return
}

// RunGroup runs the transactions of a group phase concurrently under the scheduler.
func (e *Env) RunGroup(phase int, txns []Txn) {
	s := e.S
	results := make([][]*TxnResult, len(txns))
	for i := range txns {
		tx := &txns[i]
		idx := i
		t := s.Spawn(tx.Name, tx.Node, func(t *sim.Task) {
			for attempt := 0; ; attempt++ {
				r := e.runTxn(t, tx, phase, attempt)
				results[idx] = append(results[idx], r)
				if r.Outcome == "failed" && attempt < tx.Retries {
					continue
				}
				return
			}
		})
		if tx.HoldAt > 0 {
			t.HoldAt = tx.HoldAt
			t.HoldUntil = tx.HoldFor
		}
	}
	s.Run()
	for i, t := range s.Tasks()[len(s.Tasks())-len(txns):] {
		if t.Panic != nil {
			r := &TxnResult{Name: txns[i].Name, Phase: phase, Outcome: "panic", Panic: fmt.Sprintf("%v\n%s", t.Panic, t.PanicSt)}
			results[i] = append(results[i], r)
		}
		if t.Dead() {
			// the attempt in flight never returned
			r := &TxnResult{Name: txns[i].Name, Phase: phase, Mode: txns[i].Mode, Outcome: "dead"}
			results[i] = append(results[i], r)
		} else if t.Alive() {
			e.Res.Hang = true
		}
	}
	for _, rs := range results {
		for _, r := range rs {
			e.Res.Txns = append(e.Res.Txns, *r)
		}
	}
	if len(s.CrashedNodes) > 0 {
		e.Res.Crashed = true
		for k := range s.CrashedNodes {
			delete(s.CrashedNodes, k)
		}
		e.W.Restart()
	}
}

// Observe dumps every store of the case with a fresh read-only transaction, in privileged
// mode (no scheduling, no faults, no latency).
func (e *Env) Observe(phase int, label string) Observation {
	if !e.S.InTask() {
		// run as a task of its own (alone, no faults): a scan that never returns inside sop is
		// then caught by the scheduler's stuck detection instead of hanging the harness
		var o Observation
		saveF, saveR := e.S.Cfg.Faults, e.S.Cfg.Rates
		e.S.Cfg.Faults, e.S.Cfg.Rates = nil, nil
		t := e.S.Spawn("observer-"+label, 0, func(*sim.Task) { o = e.Observe(phase, label) })
		e.S.Run()
		e.S.Cfg.Faults, e.S.Cfg.Rates = saveF, saveR
		if t.Panic != nil {
			o = Observation{Phase: phase, Label: label, Stores: map[string]Dump{}, Err: fmt.Sprintf("observer panicked: %v", t.Panic)}
		} else if t.Alive() {
			o = Observation{Phase: phase, Label: label, Stores: map[string]Dump{}, Err: "observer did not finish (step cap)"}
		}
		return o
	}
	o := Observation{Phase: phase, Label: label, Stores: map[string]Dump{}}
	ctx := context.Background()
	trans, err := infs.NewTransaction(ctx, e.txOptions("r", 0))
	if err != nil {
		o.Err = "NewTransaction: " + err.Error()
		return o
	}
	if err := trans.Begin(ctx); err != nil {
		o.Err = "Begin: " + err.Error()
		return o
	}
	if lst, err := trans.GetStores(ctx); err != nil {
		o.Err = "GetStores: " + err.Error()
	} else {
		sort.Strings(lst)
		o.List = lst
	}
	for _, sp := range e.C.Stores {
		if _, done := o.Stores[sp.Name]; done {
			continue
		}
		d := Dump{}
		exists := false
		for _, n := range o.List {
			if n == sp.Name {
				exists = true
			}
		}
		d.Exists = exists
		if !exists {
			o.Stores[sp.Name] = d
			continue
		}
		func() {
			defer func() {
				if r := recover(); r != nil {
					d.ScanErr = fmt.Sprintf("panic while reading: %v (%s)", r, panicClass(string(debug.Stack())))
				}
			}()
			e.dumpStore(ctx, sp, &d)
		}()
		o.Stores[sp.Name] = d
	}
	trans.Commit(ctx)
	return o
}

func (e *Env) dumpStore(ctx context.Context, sp StoreSpec, dp *Dump) {
	d := *dp
	defer func() { *dp = d }()
	// each store in its own transaction: OpenBtree failure rolls the transaction back
	t2, err := infs.NewTransaction(ctx, e.txOptions("r", 0))
	if err == nil {
		err = t2.Begin(ctx)
	}
	if err != nil {
		d.Err = err.Error()
		return
	}
	if gerr := e.slotGuard(sp.Name); gerr != nil {
		d.Err = gerr.Error()
		return
	}
	b, err := infs.OpenBtree[int, string](ctx, sp.Name, t2, nil)
	if err != nil {
		d.Err = "OpenBtree: " + err.Error()
		return
	}
	d.Count = b.Count()
	d.Info = b.GetStoreInfo()
	if os.Getenv("VERIF_DEBUG") != "" {
		var raw map[string]any
		found, err := e.W.InnerL2().GetStruct(ctx, e.Folder+":"+sp.Name, &raw)
		fmt.Fprintf(os.Stderr, "DEBUG observe %s: b.Count()=%d info.Count=%d L2 found=%v err=%v count=%v\n", sp.Name, d.Count, d.Info.Count, found, err, raw["count"])
	}
	ok, err := b.First(ctx)
	for ok && err == nil {
		var v string
		k := b.GetCurrentKey().Key
		v, err = b.GetCurrentValue(ctx)
		if err != nil {
			break
		}
		d.Items = append(d.Items, KV{k, unpad(v)})
		if len(d.Items) > scanCap {
			err = fmt.Errorf("forward scan does not terminate (more than %d items returned)", scanCap)
			break
		}
		ok, err = b.Next(ctx)
	}
	if err != nil {
		d.ScanErr = err.Error()
	}
	if !e.C.BackScan {
		ok = false
	} else {
		ok, err = b.Last(ctx)
	}
	for ok && err == nil {
		var v string
		k := b.GetCurrentKey().Key
		v, err = b.GetCurrentValue(ctx)
		if err != nil {
			break
		}
		d.Back = append(d.Back, KV{k, unpad(v)})
		if len(d.Back) > scanCap {
			err = fmt.Errorf("backward scan does not terminate (more than %d items returned)", scanCap)
			break
		}
		ok, err = b.Previous(ctx)
	}
	if err != nil && d.ScanErr == "" {
		d.ScanErr = "backward: " + err.Error()
	}
	if err := t2.Commit(ctx); err != nil && d.ScanErr == "" {
		d.ScanErr = "reader commit: " + err.Error()
	}
}

// Execute runs a whole case and returns its recorded history.
func Execute(c *Case) (res *Result) {
	e, err := NewEnv(c)
	if err != nil {
		return &Result{InfraErr: err.Error()}
	}
	defer e.Close()
	res = e.Res
	if c.Monitor == "handles" {
		res.Handles = newHandleMonitor(e)
	}
	groupIdx := 0
	allFaults, allRates := e.S.Cfg.Faults, e.S.Cfg.Rates
	for i, ph := range c.Phases {
		switch ph.Kind {
		case "group":
			groupIdx++
			if c.FaultPhase > 0 && c.FaultPhase != groupIdx {
				e.S.Cfg.Faults, e.S.Cfg.Rates = nil, nil
			} else {
				e.S.Cfg.Faults, e.S.Cfg.Rates = allFaults, allRates
			}
			e.RunGroup(i, ph.Txns)
		case "advance":
			e.S.Advance(time.Duration(ph.Seconds) * time.Second)
		case "restart":
			e.W.Restart()
		case "observe":
			if res.Handles != nil {
				res.Handles.snapshot(ph.Label)
			}
			res.Obs = append(res.Obs, e.Observe(i, ph.Label))
		case "observe_cold":
			e.W.Restart()
			res.Obs = append(res.Obs, e.Observe(i, ph.Label))
		}
		if e.Res.Hang {
			break
		}
	}
	if res.Handles != nil {
		res.Handles.finish(res)
	}
	res.Hash = e.S.LogHash()
	res.Steps = e.S.Steps()
	res.FilesAtEnd = e.W.ListFiles()
	if c.Audit {
		res.Audit = AuditFolder(e.Folder)
	}
	return res
}

// slotGuard protects the harness process: a store info file whose slot_length got corrupted
// to an absurd value makes btree.New allocate terabytes (fatal out-of-memory, unrecoverable).
// The raw file is inspected first and such a store is reported instead of opened.
func (e *Env) slotGuard(name string) error {
	b, err := os.ReadFile(filepath.Join(e.Folder, name, "storeinfo.txt"))
	if err != nil {
		return nil
	}
	var info struct {
		Slot int64 `json:"slot_length"`
	}
	if json.Unmarshal(b, &info) == nil && (info.Slot > 100000 || info.Slot < 0) {
		return fmt.Errorf("store info corrupted on disk: slot_length=%d (opening it would allocate that many slots)", info.Slot)
	}
	return nil
}

// padVal pads a value token to n bytes (deterministically).
func padVal(v string, n int) string {
	if len(v) >= n {
		return v
	}
	return v + "|" + strings.Repeat("x", n-len(v)-1)
}

// unpad strips the padding.
func unpad(v string) string {
	if i := strings.IndexByte(v, '|'); i >= 0 {
		return v[:i]
	}
	return v
}

// ---- model helpers ---------------------------------------------------------------------------

// Model is the reference state: per store an ordered multiset of (key,value).
type Model map[string][]KV

func (m Model) clone() Model {
	n := Model{}
	for k, v := range m {
		n[k] = append([]KV{}, v...)
	}
	return n
}

func sortKV(a []KV) {
	sort.SliceStable(a, func(i, j int) bool { return a[i].K < a[j].K })
}

func kvString(a []KV) string {
	var b strings.Builder
	for i, kv := range a {
		if i > 0 {
			b.WriteByte(' ')
		}
		fmt.Fprintf(&b, "%d=%s", kv.K, kv.V)
	}
	return b.String()
}

// sameSet compares two item lists as multisets ordered by key (order among equal keys free).
func sameItems(a, b []KV) bool {
	if len(a) != len(b) {
		return false
	}
	x := append([]KV{}, a...)
	y := append([]KV{}, b...)
	less := func(s []KV) func(i, j int) bool {
		return func(i, j int) bool {
			if s[i].K != s[j].K {
				return s[i].K < s[j].K
			}
			return s[i].V < s[j].V
		}
	}
	sort.Slice(x, less(x))
	sort.Slice(y, less(y))
	for i := range x {
		if x[i] != y[i] {
			return false
		}
	}
	return true
}

// sortedByKey reports whether the scan is in non-decreasing key order.
func sortedByKey(a []KV) bool {
	for i := 1; i < len(a); i++ {
		if a[i-1].K > a[i].K {
			return false
		}
	}
	return true
}
