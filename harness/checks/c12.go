package checks

import (
	"fmt"
	"math/rand/v2"
	"strings"
)

// C12: creating and removing stores is transactional and complete.
// C13: committing changes never alters or corrupts a store's configuration.

func genC12(r *rand.Rand, tier string) *Case {
	c := &Case{Seed: r.Uint64(), HashMod: pick(r, 1, 4, 250)}
	schedPolicy(r, c)
	shape := r.IntN(3)
	mk := func(name string) StoreSpec {
		return StoreSpec{Name: name, Slot: pick(r, 2, 4, 8, 16), Unique: r.IntN(2) == 0, ValueMode: pick(r, 0, 0, 1, 3), CacheMode: r.IntN(3)}
	}
	c.Stores = []StoreSpec{mk("base"), mk("subj")}
	setup := Txn{Name: "setup", Mode: "w", End: "commit", Create: []int{0}, Ops: []Op{{K: "add", S: 0, Key: 1, Val: "seed.0"}}}
	c.Phases = append(c.Phases, Phase{Kind: "group", Txns: []Txn{setup}})
	addOps := func(name string, store, n int) []Op {
		var ops []Op
		for i := 0; i < n; i++ {
			ops = append(ops, Op{K: "add", S: store, Key: 1 + r.IntN(12), Val: fmt.Sprintf("%s.%d", name, i)})
		}
		return ops
	}
	switch shape {
	case 0: // create + populate + commit / rollback / fail-by-fault
		tx := Txn{Name: "creator", Mode: "w", End: pick(r, "commit", "rollback", "commit"), Create: []int{1}, MaxTime: 60}
		tx.Ops = addOps("creator", 1, r.IntN(5))
		if r.IntN(3) == 0 {
			tx.Ops = append(tx.Ops, Op{K: "add", S: 0, Key: 2 + r.IntN(5), Val: "creator.b"})
		}
		c.Phases = append(c.Phases, Phase{Kind: "group", Txns: []Txn{tx}})
		if r.IntN(3) == 0 {
			c.Rates = ioRates
			c.MaxRand = 1
			c.FaultPhase = 2
		}
	case 1: // concurrent creators of the same name
		n := 2 + r.IntN(2)
		var txs []Txn
		for i := 0; i < n; i++ {
			tx := Txn{Name: fmt.Sprintf("creator%d", i), Mode: "w", End: pick(r, "commit", "commit", "commit", "rollback"), Create: []int{1}, MaxTime: 60}
			for j := 0; j < 1+r.IntN(3); j++ {
				tx.Ops = append(tx.Ops, Op{K: "add", S: 1, Key: 100*(i+1) + j, Val: fmt.Sprintf("%s.%d", tx.Name, j)})
			}
			txs = append(txs, tx)
		}
		c.Phases = append(c.Phases, Phase{Kind: "group", Txns: txs})
	case 2: // create, populate, remove, recreate with different options
		old := Txn{Name: "first", Mode: "w", End: "commit", Create: []int{1}}
		old.Ops = addOps("first", 1, 1+r.IntN(8))
		c.Phases = append(c.Phases, Phase{Kind: "group", Txns: []Txn{old}})
		if r.IntN(2) == 0 {
			c.Phases = append(c.Phases, Phase{Kind: "restart"})
		}
		c.Phases = append(c.Phases, Phase{Kind: "group", Txns: []Txn{{Name: "remover", Mode: "x", Ops: []Op{{K: "rmstore", S: 1}}}}})
		c.Phases = append(c.Phases, Phase{Kind: "observe", Label: "after-remove"})
		if r.IntN(2) == 0 {
			c.Phases = append(c.Phases, Phase{Kind: "restart"})
		}
		// new spec: same name, different options
		ns := c.Stores[1]
		ns.Slot = pick(r, 2, 4, 8, 16, 32)
		if ns.Slot == c.Stores[1].Slot {
			ns.Slot *= 2
		}
		ns.Unique = !c.Stores[1].Unique
		ns.ValueMode = pick(r, 0, 1, 3)
		c.Stores = append(c.Stores, ns)
		again := Txn{Name: "second", Mode: "w", End: "commit", Create: []int{2}}
		for j := 0; j < r.IntN(4); j++ {
			again.Ops = append(again.Ops, Op{K: "add", S: 2, Key: 50 + j, Val: fmt.Sprintf("second.%d", j)})
		}
		c.Phases = append(c.Phases, Phase{Kind: "group", Txns: []Txn{again}})
	}
	c.Phases = append(c.Phases, Phase{Kind: "observe", Label: "warm"}, Phase{Kind: "observe_cold", Label: "cold"})
	return c
}

func oracleC12(c *Case, res *Result) []Violation {
	var vs []Violation
	for _, t := range res.Txns {
		if t.Outcome == "panic" {
			return []Violation{{Class: panicClass(t.Panic), Msg: t.Name + ": " + t.Panic}}
		}
	}
	if st := findResult(res, "setup", 0); st == nil || st.Outcome != "committed" {
		return []Violation{{Class: "setup-failed", Msg: "setup did not commit"}}
	}
	byName := func(n string) *TxnResult {
		for i := range res.Txns {
			if res.Txns[i].Name == n {
				return &res.Txns[i]
			}
		}
		return nil
	}
	progOf := func(n string) *Txn {
		for pi := range c.Phases {
			for ti := range c.Phases[pi].Txns {
				if c.Phases[pi].Txns[ti].Name == n {
					return &c.Phases[pi].Txns[ti]
				}
			}
		}
		return nil
	}
	final := func() []Observation {
		var o []Observation
		for _, ob := range res.Obs {
			if ob.Label == "warm" || ob.Label == "cold" {
				o = append(o, ob)
			}
		}
		return o
	}
	faults := fmt.Sprintf("/faults%d", len(res.Sim.Fired))
	switch {
	case byName("creator") != nil: // shape 0
		tr := byName("creator")
		tx := progOf("creator")
		if tr.Outcome == "rolledback" && tr.CommitErr != "" {
			return nil
		}
		for _, o := range final() {
			d := o.Stores["subj"]
			if tr.Outcome == "committed" {
				m := Model{"subj": {}, "base": {{1, "seed.0"}}}
				skip := m.ApplyTxnObserved(c, tx, tr)
				if skip["subj"] {
					continue
				}
				if diff := compareDump(d, m["subj"], true); diff != "" {
					vs = append(vs, Violation{Class: "committed-create-wrong" + faults, Msg: fmt.Sprintf("creator committed but observer %s: %s; faults: %s", o.Label, diff, firedSummary(res))})
				}
			} else if d.Exists {
				vs = append(vs, Violation{Class: "store-survives-" + tr.Outcome + faults,
					Msg: fmt.Sprintf("store created inside a transaction that ended %s (%s%s) still exists for observer %s (GetStores=%v); faults: %s", tr.Outcome, tr.CommitErr, tr.OpenErr, o.Label, o.List, firedSummary(res))})
			}
		}
	case byName("creator0") != nil: // shape 1
		m := Model{"subj": {}}
		committed := 0
		var outs []string
		for i := 0; i < 3; i++ {
			name := fmt.Sprintf("creator%d", i)
			tr, tx := byName(name), progOf(name)
			if tr == nil {
				continue
			}
			outs = append(outs, name+":"+tr.Outcome)
			if tr.Outcome == "committed" {
				committed++
				m.ApplyTxnObserved(c, tx, tr)
			}
		}
		for _, o := range final() {
			d := o.Stores["subj"]
			n := 0
			for _, s := range o.List {
				if s == "subj" {
					n++
				}
			}
			if n > 1 {
				vs = append(vs, Violation{Class: "store-listed-twice", Msg: fmt.Sprintf("GetStores lists the concurrently created store %d times: %v", n, o.List)})
			}
			if committed > 0 {
				if diff := compareDump(d, m["subj"], true); diff != "" {
					vs = append(vs, Violation{Class: fmt.Sprintf("concurrent-create/%dcommitted", committed), Msg: fmt.Sprintf("concurrent same-name creators (%s): observer %s store subj: %s", strings.Join(outs, " "), o.Label, diff)})
				}
			} else if d.Exists {
				vs = append(vs, Violation{Class: "concurrent-create/store-survives-no-committer", Msg: fmt.Sprintf("no creator committed (%s) but the store exists for observer %s", strings.Join(outs, " "), o.Label)})
			}
		}
	case byName("remover") != nil: // shape 2
		rm := byName("remover")
		if len(rm.Ops) == 0 || !rm.Ops[0].OK {
			e := ""
			if len(rm.Ops) > 0 {
				e = rm.Ops[0].Err
			}
			return []Violation{{Class: "remove-failed/" + errClass(e), Msg: "RemoveBtree of an existing, idle store failed: " + e}}
		}
		for _, o := range res.Obs {
			if o.Label == "after-remove" && o.Stores["subj"].Exists {
				vs = append(vs, Violation{Class: "removed-store-still-listed", Msg: fmt.Sprintf("after RemoveBtree the store is still listed: %v", o.List)})
			}
		}
		sec := byName("second")
		if sec == nil || sec.Outcome != "committed" {
			e := ""
			if sec != nil {
				e = sec.Outcome + " " + sec.CommitErr + sec.OpenErr
			}
			return append(vs, Violation{Class: "recreate-failed/" + errClass(e), Msg: "re-creating the removed store name with new options failed: " + e})
		}
		ns := c.Stores[2]
		m := Model{"subj": {}}
		m.ApplyTxnObserved(c, progOf("second"), sec)
		for _, o := range final() {
			d := o.Stores["subj"]
			if diff := compareDump(d, m["subj"], true); diff != "" {
				vs = append(vs, Violation{Class: "recreated-store-not-empty", Msg: fmt.Sprintf("store recreated after removal: observer %s: %s", o.Label, diff)})
				continue
			}
			wantInNode := ns.ValueMode == 0
			if d.Info.SlotLength != ns.Slot || d.Info.IsUnique != ns.Unique || d.Info.IsValueDataInNodeSegment != wantInNode {
				vs = append(vs, Violation{Class: "recreated-store-old-options",
					Msg: fmt.Sprintf("store recreated with slot=%d unique=%v inNode=%v but observer %s reads slot=%d unique=%v inNode=%v", ns.Slot, ns.Unique, wantInNode, o.Label, d.Info.SlotLength, d.Info.IsUnique, d.Info.IsValueDataInNodeSegment)})
			}
		}
	}
	return dedupe(vs)
}

// ---- C13 ---------------------------------------------------------------------------------------

var advNames = []string{"count", "timestamp", "st", `"count":7`, `x"timestamp":`, `a"count":1,"b`, "name", "slot_length", "is_unique", "root_node_id",
	"naïve-ключ-名前", strings.Repeat("n", 120), "count_timestamp", `{"count":0}`, "registry_table", "CacheConfig"}
var advDescs = []string{"", "plain", `"count":999`, `he said "timestamp":123 and left`, `"count": 5, "timestamp": 7`, "多字节 description", `\"count\":1`, `{"count":-1,"timestamp":0}`}

func genC13(r *rand.Rand, tier string) *Case {
	c := &Case{Seed: r.Uint64(), Policy: "seq", HashMod: pick(r, 1, 4, 250), NoLat: true}
	sp := StoreSpec{Name: advNames[r.IntN(len(advNames))], Desc: advDescs[r.IntN(len(advDescs))], Slot: pick(r, 2, 4, 8, 100), Unique: r.IntN(2) == 0,
		ValueMode: pick(r, 0, 0, 1, 3), CacheMode: r.IntN(3)}
	c.Stores = []StoreSpec{sp}
	setup := Txn{Name: "create", Mode: "w", End: "commit", Create: []int{0}}
	c.Phases = append(c.Phases, Phase{Kind: "group", Txns: []Txn{setup}}, Phase{Kind: "observe_cold", Label: "created"})
	m := Model{sp.Name: {}}
	n := 1 + r.IntN(12)
	for i := 0; i < n; i++ {
		tx := Txn{Name: fmt.Sprintf("t%d", i), Mode: "w", End: "commit"}
		tx.Ops = genOps(r, c, m, []int{0}, 1+r.IntN(4), 15, tx.Name, []string{"add", "add", "add", "remove", "upsert"})
		c.Phases = append(c.Phases, Phase{Kind: "group", Txns: []Txn{tx}})
		if r.IntN(3) == 0 {
			c.Phases = append(c.Phases, Phase{Kind: "observe_cold", Label: fmt.Sprintf("after%d", i)})
		}
	}
	c.Phases = append(c.Phases, Phase{Kind: "observe_cold", Label: "final"})
	return c
}

func oracleC13(c *Case, res *Result) []Violation {
	var vs []Violation
	sp := c.Stores[0]
	var ref *Dump
	m := Model{sp.Name: {}}
	oi := 0
	tag := "/name=" + sanitize(sp.Name)
	if len(tag) > 30 {
		tag = tag[:30]
	}
	for pi, ph := range c.Phases {
		switch {
		case ph.Kind == "group":
			tr := findResult(res, ph.Txns[0].Name, pi)
			if tr == nil {
				continue
			}
			if tr.Outcome == "panic" {
				return []Violation{{Class: panicClass(tr.Panic) + tag, Msg: tr.Panic}}
			}
			if tr.Outcome != "committed" {
				return append(vs, Violation{Class: "commit-failed" + tag, Msg: fmt.Sprintf("fault-free sequential transaction %s on store %q failed: %s%s", ph.Txns[0].Name, sp.Name, tr.CommitErr, tr.OpenErr)})
			}
			m.ApplyTxnObserved(c, &ph.Txns[0], tr)
		case strings.HasPrefix(ph.Kind, "observe"):
			if oi >= len(res.Obs) {
				continue
			}
			o := res.Obs[oi]
			oi++
			d := o.Stores[sp.Name]
			if !d.Exists || d.Err != "" {
				vs = append(vs, Violation{Class: "store-unreadable" + tag, Msg: fmt.Sprintf("store named %q (description %q): observer %s cannot open it: exists=%v %s (GetStores=%v)", sp.Name, sp.Desc, o.Label, d.Exists, d.Err, o.List)})
				return dedupe(vs)
			}
			if ref == nil {
				cp := d
				ref = &cp
				// creation-time options must be what was asked for
				if d.Info.Name != sp.Name || d.Info.SlotLength != sp.Slot || d.Info.IsUnique != sp.Unique || d.Info.Description != sp.Desc {
					vs = append(vs, Violation{Class: "created-with-wrong-config" + tag, Msg: fmt.Sprintf("store created as name=%q slot=%d unique=%v desc=%q reads back name=%q slot=%d unique=%v desc=%q", sp.Name, sp.Slot, sp.Unique, sp.Desc, d.Info.Name, d.Info.SlotLength, d.Info.IsUnique, d.Info.Description)})
				}
				continue
			}
			a, b := ref.Info, d.Info
			var diffs []string
			cmp := func(f string, x, y any) {
				if fmt.Sprint(x) != fmt.Sprint(y) {
					diffs = append(diffs, fmt.Sprintf("%s: %v -> %v", f, x, y))
				}
			}
			cmp("Name", a.Name, b.Name)
			cmp("SlotLength", a.SlotLength, b.SlotLength)
			cmp("IsUnique", a.IsUnique, b.IsUnique)
			cmp("Description", a.Description, b.Description)
			cmp("RegistryTable", a.RegistryTable, b.RegistryTable)
			cmp("BlobTable", a.BlobTable, b.BlobTable)
			cmp("RootNodeID", a.RootNodeID, b.RootNodeID)
			cmp("IsValueDataInNodeSegment", a.IsValueDataInNodeSegment, b.IsValueDataInNodeSegment)
			cmp("IsValueDataActivelyPersisted", a.IsValueDataActivelyPersisted, b.IsValueDataActivelyPersisted)
			cmp("IsValueDataGloballyCached", a.IsValueDataGloballyCached, b.IsValueDataGloballyCached)
			cmp("LeafLoadBalancing", a.LeafLoadBalancing, b.LeafLoadBalancing)
			cmp("CacheConfig", a.CacheConfig, b.CacheConfig)
			cmp("MapKeyIndexSpecification", a.MapKeyIndexSpecification, b.MapKeyIndexSpecification)
			cmp("IsPrimitiveKey", a.IsPrimitiveKey, b.IsPrimitiveKey)
			if len(diffs) > 0 {
				vs = append(vs, Violation{Class: "config-changed" + tag, Msg: fmt.Sprintf("store %q (description %q): configuration changed by committing items (observer %s): %s", sp.Name, sp.Desc, o.Label, strings.Join(diffs, "; "))})
			}
			if d.Count != int64(len(m[sp.Name])) {
				vs = append(vs, Violation{Class: "count-wrong" + tag, Msg: fmt.Sprintf("store %q (description %q): observer %s Count()=%d, model has %d items", sp.Name, sp.Desc, o.Label, d.Count, len(m[sp.Name]))})
			}
			if diff := compareDump(d, m[sp.Name], true); diff != "" {
				vs = append(vs, Violation{Class: "contents-wrong" + tag, Msg: fmt.Sprintf("store %q: observer %s: %s", sp.Name, o.Label, diff)})
			}
		}
	}
	return dedupe(vs)
}

func init() {
	c12 := &caseCheck{id: "C12", gen: genC12, oracle: oracleC12, nontrivial: nontrivialHist, perUnit: func(string) int { return 20 }}
	Register(c12.def("exploration",
		"three program shapes: (a) create(+populate)+commit/rollback/fail-by-injected-fault, (b) 2-3 concurrent transactions creating the same store name (seeded schedules around StoreRepository.Get/Add), (c) create, populate, RemoveBtree, re-create under the same name with different slot length/uniqueness/value placement (restarts in between); judged through GetStores, OpenBtree, StoreInfo, Count and full dumps of a warm and a cold observer. distinct_nontrivial = distinct (program, fired faults, schedule)",
		func(tier string) int {
			if tier == "thorough" {
				return 1200
			}
			return 96
		}))
	c13 := &caseCheck{id: "C13", gen: genC13, oracle: oracleC13, nontrivial: nontrivialHist, perUnit: func(string) int { return 10 }}
	Register(c13.def("exploration",
		"store names and descriptions from an adversarial dictionary (names equal to or containing the metadata field names 'count'/'timestamp', JSON fragments, unicode, 120 characters), every option combination (slot length, uniqueness, value placement, cache config), 1-12 sequential commits changing the item count with cold reopen; after each reopen the StoreInfo must equal the creation-time one in every creation option and Count/contents must equal the model. distinct_nontrivial = distinct (name, description, options, program)",
		func(tier string) int {
			if tier == "thorough" {
				return 800
			}
			return 64
		}))
}
