package checks

import (
	"encoding/json"
	"fmt"
	"math/rand/v2"
	"os"
	"sort"
	"strings"
	"time"

	"verif/harness/sim"
)

// caseCheck is the common shape of checks whose unit of work is "generate a Case, execute
// it, judge the recorded history".
type caseCheck struct {
	id         string
	perUnit    func(tier string) int
	gen        func(r *rand.Rand, tier string) *Case
	oracle     func(c *Case, r *Result) []Violation
	nontrivial func(c *Case, r *Result) string
	sample     func(c *Case, r *Result) any
}

func (cc *caseCheck) run(u *Unit) {
	n := 1
	if cc.perUnit != nil {
		n = cc.perUnit(u.Tier)
	}
	for j := 0; j < n; j++ {
		c := cc.gen(u.Rng, u.Tier)
		curCase = c
		t0 := time.Now()
		res := Execute(c)
		if d := os.Getenv("VERIF_DUMPCASES"); d != "" {
			os.WriteFile(fmt.Sprintf("%s/case-%d-%d.json", d, u.Index, j), mustJSON(c), 0o644)
			fmt.Fprintf(os.Stderr, "CASE %d.%d hash=%s l1max=%d shard=%d rates=%v maxrand=%d policy=%s fired=%d stores=%+v\n", u.Index, j, res.Hash, c.L1Max, c.Shard, c.Rates, c.MaxRand, c.Policy, len(res.Sim.Fired), c.Stores)
		}
		if d := time.Since(t0); d > 10*time.Second {
			fmt.Fprintf(os.Stderr, "SLOW-RUN: %s unit %d case seed %d took %v, steps %d, sim %.0fs, stepcap=%v\n", cc.id, u.Index, c.Seed, d, res.Steps, res.Sim.Elapsed().Seconds(), res.Sim.StepCapHit)
		}
		u.Rep.Evals++
		u.Rep.addStats(res)
		u.Rep.Hashes = append(u.Rep.Hashes, res.Hash)
		if res.InfraErr != "" {
			u.Rep.Infra = res.InfraErr
			return
		}
		if res.Hang {
			u.Rep.Infra = fmt.Sprintf("task did not finish (scheduler returned with live tasks), case seed %d", c.Seed)
			return
		}
		if len(res.Sim.Diverged) > 0 {
			u.Rep.Infra = "fault plan diverged: " + strings.Join(res.Sim.Diverged, "; ")
			return
		}
		vs := cc.oracle(c, res)
		for i := range vs {
			vs[i].Property = cc.id
			vs[i].Hash = res.Hash
			vs[i].Payload = mustJSON(explicit(c, res))
			u.Rep.Violations = append(u.Rep.Violations, vs[i])
		}
		if sig := cc.nontrivial(c, res); sig != "" {
			u.Rep.Sigs = append(u.Rep.Sigs, sig)
		}
		if len(u.Rep.Samples) == 0 && u.Index < 3 {
			if cc.sample != nil {
				u.Rep.Samples = append(u.Rep.Samples, cc.sample(c, res))
			} else {
				u.Rep.Samples = append(u.Rep.Samples, defaultSample(c, res))
			}
		}
	}
}

// explicit returns a copy of the case in which rate-driven random faults are replaced by
// the explicit list of faults that actually fired (so that replay and shrinking do not
// depend on the fault PRNG stream).
func explicit(c *Case, res *Result) *Case {
	cp := *c
	if len(c.Rates) > 0 {
		cp.Rates = nil
		cp.Faults = append([]sim.FaultSpec{}, res.Sim.Fired...)
	}
	return &cp
}

func defaultSample(c *Case, res *Result) any {
	type ts struct {
		Name    string `json:"name"`
		Mode    string `json:"mode"`
		Ops     string `json:"ops"`
		Outcome string `json:"outcome"`
		Err     string `json:"err,omitempty"`
	}
	var txs []ts
	progs := map[string]*Txn{}
	for pi := range c.Phases {
		for ti := range c.Phases[pi].Txns {
			progs[c.Phases[pi].Txns[ti].Name] = &c.Phases[pi].Txns[ti]
		}
	}
	for _, t := range res.Txns {
		p := progs[t.Name]
		ops := ""
		if p != nil {
			ops = opsString(p.Ops)
		}
		e := t.CommitErr
		if len(e) > 120 {
			e = e[:120]
		}
		txs = append(txs, ts{t.Name, t.Mode, ops, t.Outcome, e})
	}
	return map[string]any{"seed": c.Seed, "policy": c.Policy, "stores": c.Stores, "txns": txs,
		"faults_fired": res.Sim.Fired, "steps": res.Steps, "context_switches": res.Sim.Switches, "event_log_hash": res.Hash}
}

func opsString(ops []Op) string {
	var b strings.Builder
	for i, o := range ops {
		if i > 0 {
			b.WriteByte(' ')
		}
		if i >= 12 {
			fmt.Fprintf(&b, "…(+%d)", len(ops)-i)
			break
		}
		fmt.Fprintf(&b, "%s(s%d,%d)", o.K, o.S, o.Key)
	}
	return b.String()
}

func (cc *caseCheck) replay(payload json.RawMessage) []Violation {
	var c Case
	if err := json.Unmarshal(payload, &c); err != nil {
		return []Violation{{Class: "bad-replay-file", Msg: err.Error()}}
	}
	res := Execute(&c)
	if res.InfraErr != "" || res.Hang {
		return []Violation{{Class: "replay-infra", Msg: res.InfraErr}}
	}
	vs := cc.oracle(&c, res)
	for i := range vs {
		vs[i].Hash = res.Hash
	}
	return vs
}

// minimise shrinks the case while the same violation class persists.
func (cc *caseCheck) minimise(v Violation) Violation {
	var c Case
	if err := json.Unmarshal(v.Payload, &c); err != nil {
		return v
	}
	budget := 250
	fails := func(cand *Case) (bool, string, string) {
		if budget <= 0 {
			return false, "", ""
		}
		budget--
		res := Execute(cand)
		if res.InfraErr != "" || res.Hang || len(res.Sim.Diverged) > 0 {
			return false, "", ""
		}
		for _, x := range cc.oracle(cand, res) {
			if x.Class == v.Class {
				return true, x.Msg, res.Hash
			}
		}
		return false, "", ""
	}
	ok, msg, hash := fails(&c)
	if !ok {
		return v // not reproducible in this process: keep the original
	}
	best := c
	bestMsg, bestHash := msg, hash
	try := func(cand Case) bool {
		if ok, m, h := fails(&cand); ok {
			best, bestMsg, bestHash = cand, m, h
			if minimiseCheckpoint != "" {
				cp := v
				cp.Payload = mustJSON(best)
				cp.Msg = bestMsg + fmt.Sprintf("\n(minimised: %d phases, %d faults)", len(best.Phases), len(best.Faults))
				cp.Hash = bestHash
				os.WriteFile(minimiseCheckpoint, mustJSON(cp), 0o644)
			}
			return true
		}
		return false
	}
	clone := func(c Case) Case {
		var n Case
		json.Unmarshal(mustJSON(c), &n)
		return n
	}
	changed := true
	for changed && budget > 0 {
		changed = false
		// drop faults
		for i := 0; i < len(best.Faults); i++ {
			cand := clone(best)
			cand.Faults = append(cand.Faults[:i], cand.Faults[i+1:]...)
			if try(cand) {
				changed = true
				i--
			}
		}
		// drop whole phases (group/advance/restart), keep observes
		for i := 0; i < len(best.Phases); i++ {
			if strings.HasPrefix(best.Phases[i].Kind, "observe") {
				continue
			}
			cand := clone(best)
			cand.Phases = append(cand.Phases[:i], cand.Phases[i+1:]...)
			if cand.FaultPhase > 0 {
				continue // group indices would shift
			}
			if try(cand) {
				changed = true
				i--
			}
		}
		// drop transactions inside groups
		for pi := range best.Phases {
			for ti := 0; ti < len(best.Phases[pi].Txns) && len(best.Phases[pi].Txns) > 1; ti++ {
				cand := clone(best)
				cand.Phases[pi].Txns = append(cand.Phases[pi].Txns[:ti], cand.Phases[pi].Txns[ti+1:]...)
				if try(cand) {
					changed = true
					ti--
				}
			}
		}
		// drop operations
		for pi := range best.Phases {
			for ti := range best.Phases[pi].Txns {
				for oi := 0; oi < len(best.Phases[pi].Txns[ti].Ops); oi++ {
					cand := clone(best)
					ops := cand.Phases[pi].Txns[ti].Ops
					cand.Phases[pi].Txns[ti].Ops = append(ops[:oi], ops[oi+1:]...)
					if try(cand) {
						changed = true
						oi--
					}
				}
			}
		}
	}
	v.Payload = mustJSON(best)
	v.Msg = bestMsg + fmt.Sprintf("\n(minimised: %d phases, %d faults)", len(best.Phases), len(best.Faults))
	v.Hash = bestHash
	return v
}

func (cc *caseCheck) def(level, rule string, units func(string) int) *CheckDef {
	return &CheckDef{ID: cc.id, Level: level, Rule: rule, Units: units, Run: cc.run, Replay: cc.replay, Minimise: cc.minimise,
		Real: realComponents, Stub: stubComponents, Assume: commonAssumptions}
}

var realComponents = []string{"infs (public API)", "common (2PC transaction manager)", "btree", "cache (L1 MRU, L2 in-memory incl. locks)", "fs (registry, hashmap, blob store, store repository, transaction/priority logs)", "encoding"}
var stubComponents = []string{"goroutine scheduling (cooperative scheduler, one task at a time)", "wall clock (simulated, sop.Now + redirected time.Now)", "sleep/backoff (simulated)", "TaskRunner concurrency (tasks run inline in PRNG order)", "O_DIRECT (buffered I/O on tmpfs)", "map iteration order (PRNG-chosen)", "process boundary (volatile state dropped in-process)"}
var commonAssumptions = []string{
	"sampling, not proof: a clean batch is evidence only",
	"one OS process simulates the system; process death = tasks never resumed + volatile state dropped",
	"registry block I/O is atomic except at a simulated crash",
	"instrumentation is a build overlay generated from /repo's working tree; all hooks are no-ops when unset",
}

// ---- generators ------------------------------------------------------------------------------

func pick[T any](r *rand.Rand, xs ...T) T { return xs[r.IntN(len(xs))] }

func genStores(r *rand.Rand, n int, uniqueOnly bool) []StoreSpec {
	var out []StoreSpec
	for i := 0; i < n; i++ {
		sp := StoreSpec{Name: fmt.Sprintf("st%d", i), Slot: pick(r, 2, 4, 4, 8, 16), Unique: uniqueOnly || r.IntN(4) != 0,
			ValueMode: pick(r, 0, 0, 1, 2, 3), CacheMode: pick(r, 0, 0, 1, 2)}
		out = append(out, sp)
	}
	return out
}

// genOps draws nops operations against the model m (which is updated), so that a useful
// share of removes/updates hit existing keys.
func genOps(r *rand.Rand, c *Case, m Model, stores []int, nops, keyspace int, tag string, kinds []string) []Op {
	var ops []Op
	for i := 0; i < nops; i++ {
		si := stores[r.IntN(len(stores))]
		sp := c.Stores[si]
		k := kinds[r.IntN(len(kinds))]
		key := 1 + r.IntN(keyspace) // key 0 and load balancing are C17's sub-batches (known findings there)
		cur := m[sp.Name]
		if (k == "remove" || k == "update" || k == "get" || k == "updkey" || k == "updcur" || k == "rmcur") && len(cur) > 0 && r.IntN(4) != 0 {
			key = cur[r.IntN(len(cur))].K
		}
		if !sp.Unique && (k == "remove" || k == "update" || k == "upsert" || k == "updcur" || k == "rmcur") {
			// keep the model unambiguous on duplicate-key stores
			n := 0
			for _, kv := range cur {
				if kv.K == key {
					n++
				}
			}
			if n > 1 {
				k = "add"
			}
		}
		op := Op{K: k, S: si, Key: key}
		switch k {
		case "add", "addif", "upsert", "update", "updcur":
			op.Val = fmt.Sprintf("%s.%d", tag, i)
		}
		ops = append(ops, op)
		m.ModelOp(sp.Name, sp.Unique, op)
	}
	return ops
}

var writeKinds = []string{"add", "add", "add", "addif", "upsert", "update", "updcur", "remove", "remove", "rmcur", "get", "updkey"}

// setupTxn creates all stores and seeds them with nseed items each.
func setupTxn(r *rand.Rand, c *Case, m Model, nseed, keyspace int) Txn {
	tx := Txn{Name: "setup", Mode: "w", End: "commit"}
	for i, sp := range c.Stores {
		tx.Create = append(tx.Create, i)
		m[sp.Name] = []KV{}
		keys := r.Perm(keyspace)
		if nseed > keyspace {
			nseed = keyspace
		}
		ks := append([]int{}, keys[:nseed]...)
		for j := range ks {
			ks[j]++
		}
		sort.Ints(ks)
		for j, k := range ks {
			op := Op{K: "add", S: i, Key: k, Val: fmt.Sprintf("seed%d.%d", i, j)}
			tx.Ops = append(tx.Ops, op)
			m.ModelOp(sp.Name, sp.Unique, op)
		}
	}
	return tx
}
