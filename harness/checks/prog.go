package checks

import (
	"encoding/json"
	"fmt"
	"math/rand/v2"
	"os"

	"verif/harness/sim"
)

// Program checks: a case is a seeded list of steps run through the public API inside the
// simulated world (steps with the same non-zero Group run as concurrent tasks under the seeded
// scheduler). The shared machinery here runs, replays and minimises such cases.

type PStep struct {
	K     string `json:"k"`
	Key   int    `json:"key,omitempty"`
	Key2  int    `json:"key2,omitempty"`
	Mode  string `json:"mode,omitempty"`
	Via   string `json:"via,omitempty"`
	End   string `json:"end,omitempty"`
	Mut   string `json:"mut,omitempty"`
	Same  bool   `json:"same,omitempty"`
	Group int    `json:"group,omitempty"`
	N     int    `json:"n,omitempty"`
	S     string `json:"s,omitempty"`
}

type progCase struct {
	Seed   uint64          `json:"seed"`
	Policy string          `json:"policy,omitempty"`
	Sticky float64         `json:"sticky,omitempty"`
	Kind   string          `json:"kind,omitempty"`
	P      map[string]int  `json:"p,omitempty"`
	Faults []sim.FaultSpec `json:"faults,omitempty"`
	Rates  []sim.Rates     `json:"rates,omitempty"`
	Steps  []PStep         `json:"steps"`
}

type progStats struct {
	S        *sim.Sim
	Hash     string
	Probes   map[string]int
	Nontriv  string
	InfraErr string
}

type progCheck struct {
	id      string
	perUnit int
	gen     func(r *rand.Rand, tier string) *progCase
	run     func(c *progCase) ([]Violation, *progStats)
}

func (pc *progCheck) runUnit(u *Unit) {
	for j := 0; j < pc.perUnit; j++ {
		c := pc.gen(u.Rng, u.Tier)
		curCase = c
		vs, st := pc.run(c)
		u.Rep.Evals++
		if st.InfraErr != "" {
			u.Rep.Infra = st.InfraErr
			return
		}
		if st.S != nil {
			u.Rep.Ops += st.S.Seq()
			u.Rep.Steps += st.S.Steps()
			u.Rep.SimNs += int64(st.S.Elapsed())
			for _, f := range st.S.Fired {
				if u.Rep.Faults == nil {
					u.Rep.Faults = map[string]int{}
				}
				u.Rep.Faults[f.Kind]++
			}
		}
		u.Rep.Hashes = append(u.Rep.Hashes, st.Hash)
		for k, n := range st.Probes {
			if u.Rep.Probes == nil {
				u.Rep.Probes = map[string]int{}
			}
			u.Rep.Probes[k] += n
		}
		for _, v := range vs {
			v.Payload = mustJSON(c)
			v.Hash = st.Hash
			u.Rep.Violations = append(u.Rep.Violations, v)
		}
		if st.Nontriv != "" {
			u.Rep.Sigs = append(u.Rep.Sigs, st.Nontriv)
		}
		if len(u.Rep.Samples) == 0 && u.Index < 3 {
			u.Rep.Samples = append(u.Rep.Samples, map[string]any{"case": c, "event_log_hash": st.Hash})
		}
	}
}

func (pc *progCheck) replay(payload json.RawMessage) []Violation {
	var c progCase
	if err := json.Unmarshal(payload, &c); err != nil {
		return []Violation{{Class: "bad-replay-file", Msg: err.Error()}}
	}
	vs, st := pc.run(&c)
	for i := range vs {
		vs[i].Hash = st.Hash
	}
	return vs
}

func (pc *progCheck) minimise(v Violation) Violation {
	var c progCase
	if json.Unmarshal(v.Payload, &c) != nil {
		return v
	}
	fails := func(cand *progCase) bool {
		vs, st := pc.run(cand)
		for _, x := range vs {
			if x.Class == v.Class {
				v.Msg = x.Msg
				v.Hash = st.Hash
				return true
			}
		}
		return false
	}
	clone := func(c progCase) progCase {
		var n progCase
		json.Unmarshal(mustJSON(c), &n)
		return n
	}
	if !fails(&c) {
		return v
	}
	best := c
	budget := 150
	save := func() {
		if minimiseCheckpoint != "" {
			cp := v
			cp.Payload = mustJSON(best)
			os.WriteFile(minimiseCheckpoint, mustJSON(cp), 0o644)
		}
	}
	for i := 0; i < len(best.Faults) && budget > 0; i++ {
		cand := clone(best)
		cand.Faults = append(cand.Faults[:i], cand.Faults[i+1:]...)
		budget--
		if fails(&cand) {
			best = cand
			i--
			save()
		}
	}
	changed := true
	for changed && budget > 0 {
		changed = false
		for i := len(best.Steps) - 1; i >= 0 && budget > 0; i-- {
			if i >= len(best.Steps) {
				continue
			}
			cand := clone(best)
			cand.Steps = append(cand.Steps[:i], cand.Steps[i+1:]...)
			budget--
			if fails(&cand) {
				best = cand
				changed = true
				save()
			}
		}
	}
	fails(&best)
	v.Payload = mustJSON(best)
	v.Msg += fmt.Sprintf("\n(minimised to %d steps, %d faults)", len(best.Steps), len(best.Faults))
	return v
}

func (pc *progCheck) def(level, rule string, units func(string) int, real, stub, assume []string) *CheckDef {
	return &CheckDef{ID: pc.id, Level: level, Rule: rule, Units: units, Run: pc.runUnit, Replay: pc.replay, Minimise: pc.minimise,
		Real: real, Stub: stub, Assume: assume}
}

// progEnv creates a world for a program case.
func progEnv(c *progCase) (*Env, error) {
	cs := &Case{Seed: c.Seed, Policy: c.Policy, Sticky: c.Sticky, Faults: c.Faults, Rates: c.Rates, HashMod: 4, KeepLog: false}
	if c.Policy == "" {
		cs.Policy = "random"
		cs.Sticky = 0.5
	}
	return NewEnv(cs)
}

// runTasks runs the given functions as concurrent tasks (or one alone) under the scheduler and
// returns the panic texts, if any.
func (e *Env) runTasks(names []string, fns []func(t *sim.Task)) []string {
	n0 := len(e.S.Tasks())
	for i := range fns {
		e.S.Spawn(names[i], 0, fns[i])
	}
	e.S.Run()
	out := make([]string, len(fns))
	for i, t := range e.S.Tasks()[n0:] {
		if t.Panic != nil {
			out[i] = fmt.Sprintf("%v\n%s", t.Panic, t.PanicSt)
		} else if t.Alive() {
			out[i] = "hang"
		}
	}
	return out
}
