package checks

import (
	"encoding/json"
	"fmt"
	"sort"
)

// ModelOp applies one operation to the reference model (ordered multiset / map) and returns
// what the B-tree call should return. ambiguous is set when the model cannot predict the
// effect uniquely (update/remove of a key that has duplicates).
func (m Model) ModelOp(store string, unique bool, op Op) (ok bool, val string, items []KV, count int64, ambiguous bool) {
	items0 := m[store]
	idx := -1
	n := 0
	for i, kv := range items0 {
		if kv.K == op.Key {
			if idx < 0 {
				idx = i
			}
			n++
		}
	}
	switch op.K {
	case "add", "addif":
		if idx >= 0 && (unique || op.K == "addif") {
			return false, "", nil, 0, false
		}
		m.insert(store, KV{op.Key, op.Val})
		return true, "", nil, 0, false
	case "upsert":
		if idx >= 0 {
			if n > 1 {
				ambiguous = true
			}
			m[store][idx].V = op.Val
			return true, "", nil, 0, ambiguous
		}
		m.insert(store, KV{op.Key, op.Val})
		return true, "", nil, 0, false
	case "update", "updcur":
		if idx < 0 {
			return false, "", nil, 0, false
		}
		if n > 1 {
			ambiguous = true
		}
		m[store][idx].V = op.Val
		return true, "", nil, 0, ambiguous
	case "updkey":
		return idx >= 0, "", nil, 0, false
	case "remove", "rmcur":
		if idx < 0 {
			return false, "", nil, 0, false
		}
		if n > 1 {
			ambiguous = true
		}
		m[store] = append(append([]KV{}, items0[:idx]...), items0[idx+1:]...)
		return true, "", nil, 0, ambiguous
	case "find":
		return idx >= 0, "", nil, 0, false
	case "get":
		if idx < 0 {
			return false, "", nil, 0, false
		}
		return true, items0[idx].V, nil, 0, n > 1
	case "count":
		return true, "", nil, int64(len(items0)), false
	case "scan":
		out := append([]KV{}, items0...)
		return true, "", out, 0, false
	case "range", "rrange":
		out := []KV{}
		for _, kv := range items0 {
			if kv.K >= op.Key && kv.K <= op.Hi {
				out = append(out, kv)
			}
		}
		if op.K == "rrange" {
			for i, j := 0, len(out)-1; i < j; i, j = i+1, j-1 {
				out[i], out[j] = out[j], out[i]
			}
		}
		return true, "", out, 0, false
	case "findfirst", "finddesc", "findid":
		out := []KV{}
		for _, kv := range items0 {
			if kv.K == op.Key {
				out = append(out, kv)
			}
		}
		return idx >= 0, "", out, 0, false
	case "rscan":
		out := []KV{}
		for i := len(items0) - 1; i >= 0; i-- {
			out = append(out, items0[i])
		}
		return true, "", out, 0, false
	}
	return false, "", nil, 0, true
}

func (m Model) insert(store string, kv KV) {
	a := m[store]
	// after the last item with key <= kv.K (stable for duplicates)
	i := sort.Search(len(a), func(i int) bool { return a[i].K > kv.K })
	a = append(a, KV{})
	copy(a[i+1:], a[i:])
	a[i] = kv
	m[store] = a
}

// ApplyTxn applies the write effects of a transaction program to the model.
func (m Model) ApplyTxn(c *Case, tx *Txn) (ambiguous bool) {
	for _, idx := range tx.Create {
		if _, ok := m[c.Stores[idx].Name]; !ok {
			m[c.Stores[idx].Name] = []KV{}
		}
	}
	for _, op := range tx.Ops {
		sp := c.Stores[op.S]
		_, _, _, _, amb := m.ModelOp(sp.Name, sp.Unique, op)
		if amb {
			ambiguous = true
		}
	}
	return
}

// ApplyTxnObserved applies the effects of a transaction program following what the B-tree
// calls themselves reported (a write that returned false has no effect). When a call's
// reported result disagrees with the model (a C17 matter) the store is marked unpredictable.
func (m Model) ApplyTxnObserved(c *Case, tx *Txn, tr *TxnResult) (unpredictable map[string]bool) {
	unpredictable = map[string]bool{}
	for _, idx := range tx.Create {
		if _, ok := m[c.Stores[idx].Name]; !ok {
			m[c.Stores[idx].Name] = []KV{}
		}
	}
	for i, op := range tx.Ops {
		sp := c.Stores[op.S]
		if tr == nil || i >= len(tr.Ops) {
			break
		}
		probe := m.clone()
		ok, _, _, _, amb := probe.ModelOp(sp.Name, sp.Unique, op)
		if amb {
			unpredictable[sp.Name] = true
		}
		switch op.K {
		case "add", "addif", "upsert", "update", "remove", "updcur", "rmcur":
			if ok != tr.Ops[i].OK {
				unpredictable[sp.Name] = true
				continue
			}
		}
		m.ModelOp(sp.Name, sp.Unique, op)
	}
	return
}

// compareDump compares an observed dump with the model's items for the store. Items with
// equal keys may appear in any relative order. It returns "" when equal.
func compareDump(d Dump, want []KV, exists bool) string {
	if d.Exists != exists {
		return fmt.Sprintf("store exists=%v, expected %v", d.Exists, exists)
	}
	if !exists {
		return ""
	}
	if d.Err != "" {
		return "cannot open: " + d.Err
	}
	if d.ScanErr != "" {
		return "scan failed: " + d.ScanErr
	}
	if !sortedByKey(d.Items) {
		return "scan out of key order: " + kvString(d.Items)
	}
	if !sameItems(d.Items, want) {
		return fmt.Sprintf("items differ: got [%s] want [%s]", kvString(d.Items), kvString(want))
	}
	return ""
}

func mustJSON(v any) json.RawMessage {
	b, err := json.Marshal(v)
	if err != nil {
		panic(err)
	}
	return b
}
