package checks

import (
	"encoding/json"
	"fmt"
	"math/rand/v2"
	"os"
	"path/filepath"
	"strings"
	"time"

	"verif/harness/sim"
)

// C08: a crash during commit leaves all-or-nothing with earlier commits intact.
// C09: work left by a crashed transaction is recovered by later transactions.

// recoverySchedule: simulated time advanced (not waited) before each tick transaction.
var recoverySchedule = []int{0, 6 * 60, 75 * 60, 130 * 60, 300 * 60}

// genCrashProgram: setup + prefix + subject (crashes) + recovery ticks with observers + final writer.
func genCrashProgram(r *rand.Rand) *Case {
	c := &Case{Seed: r.Uint64(), Policy: "seq", HashMod: pick(r, 1, 4, 250)}
	shape := r.IntN(5)
	ns := 1
	if shape == 4 {
		ns = 2
	}
	for i := 0; i < ns; i++ {
		c.Stores = append(c.Stores, StoreSpec{Name: fmt.Sprintf("st%d", i), Slot: pick(r, 2, 4, 8), Unique: true, ValueMode: pick(r, 0, 0, 0, 1, 3), CacheMode: r.IntN(3)})
	}
	// a separate store used by the tick transactions
	c.Stores = append(c.Stores, StoreSpec{Name: "ticks", Slot: 8, Unique: true})
	tickIdx := len(c.Stores) - 1
	keyspace := 20
	m := Model{}
	setup := Txn{Name: "setup", Mode: "w", End: "commit"}
	late := shape == 0
	for i, sp := range c.Stores {
		if late && i == 0 {
			continue
		}
		setup.Create = append(setup.Create, i)
		m[sp.Name] = []KV{}
		if i == tickIdx {
			continue
		}
		n := 3 + r.IntN(6)
		if shape == 1 {
			n = 0
		}
		for j := 0; j < n; j++ {
			op := Op{K: "add", S: i, Key: 1 + r.IntN(keyspace), Val: fmt.Sprintf("seed%d.%d", i, j)}
			if ok, _, _, _, _ := m.clone().ModelOp(sp.Name, true, op); ok {
				setup.Ops = append(setup.Ops, op)
				m.ModelOp(sp.Name, true, op)
			}
		}
	}
	c.Phases = append(c.Phases, Phase{Kind: "group", Txns: []Txn{setup}})
	// one committed prefix transaction (must stay intact)
	if shape != 1 {
		pre := Txn{Name: "pre", Mode: "w", End: "commit"}
		var ex []int
		for i := range c.Stores {
			if i != tickIdx && !(late && i == 0) {
				ex = append(ex, i)
			}
		}
		if len(ex) > 0 {
			pre.Ops = genOps(r, c, m, ex, 1+r.IntN(4), keyspace, "pre", writeKinds)
			c.Phases = append(c.Phases, Phase{Kind: "group", Txns: []Txn{pre}})
		}
	}
	if r.IntN(2) == 0 {
		c.Phases = append(c.Phases, Phase{Kind: "restart"})
	}
	sub := Txn{Name: "subject", Mode: "w", End: "commit", MaxTime: 60}
	var touch []int
	for i := range c.Stores {
		if i == tickIdx {
			continue
		}
		touch = append(touch, i)
		if late && i == 0 {
			sub.Create = append(sub.Create, i)
		}
	}
	mm := m.clone()
	for _, i := range sub.Create {
		mm[c.Stores[i].Name] = []KV{}
	}
	kinds := writeKinds
	nops := 2 + r.IntN(5)
	switch shape {
	case 2:
		kinds = []string{"add", "add", "add", "upsert"}
		nops = 5 + r.IntN(6)
	case 3:
		kinds = []string{"update", "update", "remove", "remove", "get"}
	}
	sub.Ops = genOps(r, c, mm, touch, nops, keyspace, "sub", kinds)
	c.Phases = append(c.Phases, Phase{Kind: "group", Txns: []Txn{sub}})
	c.FaultPhase = len(c.Phases) - countNonGroup(c.Phases)
	for i, adv := range recoverySchedule {
		if adv > 0 {
			c.Phases = append(c.Phases, Phase{Kind: "advance", Seconds: adv})
		}
		tick := Txn{Name: fmt.Sprintf("tick%d", i), Mode: "w", End: "commit", MaxTime: 60,
			Ops: []Op{{K: "upsert", S: tickIdx, Key: 1 + i, Val: fmt.Sprintf("tick%d.0", i)}}}
		c.Phases = append(c.Phases, Phase{Kind: "group", Txns: []Txn{tick}})
		c.Phases = append(c.Phases, Phase{Kind: "observe", Label: fmt.Sprintf("rec%d", i)})
	}
	// a writer touching the same keys as the subject
	again := sub
	again.Name = "again"
	again.MaxTime = 120
	c.Phases = append(c.Phases, Phase{Kind: "group", Txns: []Txn{again}}, Phase{Kind: "observe_cold", Label: "final"})
	return c
}

func crashFaultsFor(kind, target string) []sim.FaultSpec {
	if !sim.IsMutation(kind) {
		return nil
	}
	fs := []sim.FaultSpec{{Kind: "crash"}, {Kind: "crash_after"}}
	switch kind {
	case "dio.WriteAt":
		for _, n := range []int64{512, 1024, 1536, 2048, 2560, 3072, 3584, 100, 2000, 4095} {
			fs = append(fs, sim.FaultSpec{Kind: "torn", Arg: n})
		}
	case "fio.WriteFile":
		for _, n := range []int64{0, 1, 40, 300} {
			fs = append(fs, sim.FaultSpec{Kind: "torn", Arg: n})
		}
	}
	return fs
}

// listLogs returns the transaction / priority log files present under the data folder.
func listLogs(files []string) (logs []string) {
	for _, f := range files {
		if strings.HasSuffix(f, ".log") || strings.HasSuffix(f, ".plg") {
			logs = append(logs, f)
		}
	}
	return
}

func oracleCrash(c *Case, res *Result, liveness bool) []Violation {
	var vs []Violation
	sp := subjectPhase(c)
	m := Model{}
	for pi, ph := range c.Phases {
		if ph.Kind != "group" || pi >= sp {
			continue
		}
		for ti := range ph.Txns {
			tr := findResult(res, ph.Txns[ti].Name, pi)
			if tr == nil || tr.Outcome != "committed" {
				return []Violation{{Class: "setup-failed", Msg: "fault-free setup did not commit: " + ph.Txns[ti].Name}}
			}
			m.ApplyTxn(c, &ph.Txns[ti])
		}
	}
	sub := &c.Phases[sp].Txns[0]
	sr := findResult(res, "subject", sp)
	fk, fop := "none", ""
	if len(res.Sim.Fired) > 0 {
		f := res.Sim.Fired[0]
		fk = f.Kind
		fop = f.Match
	}
	tag := fmt.Sprintf("/%s@%s", fk, fop)
	if c.Note != "" {
		// commit step logged last before the crash point: 2 lockTrackedItems, 3 commitTrackedItemsValues,
		// 4 commitNewRootNodes, 5 areFetchedItemsIntact, 6 commitUpdatedNodes, 7 commitRemovedNodes,
		// 8 commitAddedNodes, 9 commitStoreInfo, 10 beforeFinalize, 11 finalizeCommit (registry flip),
		// 12 deleteObsoleteEntries, 13 deleteTrackedItemsValues
		tag = "/" + c.Note + tag
	}
	for _, st := range c.Stores {
		if items, ok := m[st.Name]; st.Name != "ticks" && ok && len(items) == 0 {
			tag = "/emptystore" + tag // the subject creates the first root node of an existing, empty store
			break
		}
	}
	s0 := m
	s1 := m.clone()
	s1.ApplyTxn(c, sub)
	for _, st := range c.Stores {
		if st.Name != "ticks" && len(s0[st.Name]) > 0 && len(s1[st.Name]) == 0 {
			// the subject removes the last item of a store: its count goes to 0 in phase 1, and a store
			// whose published count is 0 reads as empty whatever its root node holds
			tag = "/emptied" + tag
			break
		}
	}
	for _, idx := range sub.Create {
		if _, ok := s0[c.Stores[idx].Name]; ok {
			continue
		}
	}
	state := "" // "", "S0", "S1" once determined
	if sr != nil && sr.Outcome == "committed" {
		state = "S1"
	}
	for _, o := range res.Obs {
		if strings.HasPrefix(o.Label, "final") {
			continue
		}
		if o.Err != "" {
			vs = append(vs, Violation{Class: "observer-error/" + o.Label + tag, Msg: o.Err})
			continue
		}
		is0, is1 := true, true
		var why0, why1 string
		for _, st := range c.Stores {
			if st.Name == "ticks" {
				continue
			}
			d := o.Stores[st.Name]
			w0, e0 := s0[st.Name]
			w1, e1 := s1[st.Name]
			if diff := compareDump(d, w0, e0); diff != "" {
				is0 = false
				why0 = st.Name + ": " + diff
			}
			if diff := compareDump(d, w1, e1); diff != "" {
				is1 = false
				why1 = st.Name + ": " + diff
			}
		}
		lastRec := fmt.Sprintf("rec%d", len(recoverySchedule)-1)
		switch {
		case !is0 && !is1:
			kind := "mixture"
			if strings.Contains(why0, "cannot open") || strings.Contains(why0, "scan failed") {
				kind = "unreadable"
			}
			if kind == "mixture" && o.Label != lastRec {
				// recovery is still entitled to its documented waiting periods: a half-applied
				// commit may be visible until then; "readable" is required at all times
				continue
			}
			vs = append(vs, Violation{Class: fmt.Sprintf("%s/%s", kind, o.Label) + tag,
				Msg: fmt.Sprintf("after crash (%s) observer %s sees neither the pre-commit nor the post-commit state:\n vs S0: %s\n vs S0+W: %s", firedSummary(res), o.Label, why0, why1)})
		case is1 && !is0:
			state = "S1"
		case is0 && !is1:
			if state == "S1" && sr != nil && sr.Outcome == "committed" {
				vs = append(vs, Violation{Class: "non-monotone/" + o.Label + tag,
					Msg: fmt.Sprintf("the transaction's changes were visible (or Commit had returned success) and disappeared again at %s; crash: %s", o.Label, firedSummary(res))})
			}
			state = "S0"
		}
		// count
		for _, st := range c.Stores {
			d := o.Stores[st.Name]
			if o.Label == lastRec && d.Exists && d.Err == "" && d.ScanErr == "" && d.Count != int64(len(d.Items)) && (is0 || is1) {
				vs = append(vs, Violation{Class: "count-mismatch/" + o.Label + tag,
					Msg: fmt.Sprintf("after crash (%s) observer %s store %s: Count()=%d, scan has %d items", firedSummary(res), o.Label, st.Name, d.Count, len(d.Items))})
			}
		}
	}
	// stores remain writable: the tick transactions must commit
	for pi, ph := range c.Phases {
		if ph.Kind != "group" || pi <= sp {
			continue
		}
		for ti := range ph.Txns {
			tx := &ph.Txns[ti]
			tr := findResult(res, tx.Name, pi)
			if tr == nil {
				continue
			}
			if tr.Outcome == "panic" {
				vs = append(vs, Violation{Class: panicClass(tr.Panic) + "/" + tx.Name + tag, Msg: tr.Panic})
				continue
			}
			if strings.HasPrefix(tx.Name, "tick") && tr.Outcome != "committed" {
				vs = append(vs, Violation{Class: "not-writable/" + tx.Name + tag,
					Msg: fmt.Sprintf("after crash (%s) transaction %s on an unrelated store ended %s: %s%s", firedSummary(res), tx.Name, tr.Outcome, tr.CommitErr, tr.OpenErr)})
			}
			if tx.Name == "again" && liveness && tr.Outcome != "committed" {
				e := tr.CommitErr + tr.OpenErr + tr.BeginErr
				for _, o := range tr.Ops {
					e += o.Err
				}
				vs = append(vs, Violation{Class: "still-blocked-after-recovery-window/" + errClass(e) + tag,
					Msg: fmt.Sprintf("%.1f simulated hours after the crash (%s), with a transaction at every recovery threshold, a writer touching the crashed transaction's keys still fails: %s", float64(sum(recoverySchedule))/3600, firedSummary(res), e)})
			}
		}
	}
	if liveness && res.Crashed {
		if logs := listLogs(res.FilesAtEnd); len(logs) > 0 {
			vs = append(vs, Violation{Class: "logs-remain" + tag,
				Msg: fmt.Sprintf("%.1f simulated hours after the crash (%s) these transaction/priority logs are still present: %v", float64(sum(recoverySchedule))/3600, firedSummary(res), logs)})
		}
	}
	return dedupe(vs)
}

func sum(a []int) int {
	t := 0
	for _, x := range a {
		t += x
	}
	return t
}

func runCrashEnum(liveness bool) func(u *Unit) {
	return func(u *Unit) {
		prog := genCrashProgram(u.Rng)
		prof := *prog
		prof.KeepLog = true
		pres := Execute(&prof)
		u.Rep.Evals++
		u.Rep.addStats(pres)
		if pres.InfraErr != "" || pres.Hang {
			u.Rep.Infra = "profile run failed: " + pres.InfraErr
			return
		}
		for _, v := range oracleCrash(&prof, pres, false) {
			v.Payload = mustJSON(&prof)
			v.Class = "crash-free/" + v.Class
			u.Rep.Violations = append(u.Rep.Violations, v)
		}
		type pos struct {
			op           int
			kind, target string
			stage        int // last commit step the subject had logged before this mutation (transaction-log code)
		}
		var positions []pos
		commitSeen := false
		stage := 0
		for _, e := range pres.Sim.Log {
			if e.Task != "subject" {
				continue
			}
			if e.Kind == "mark.commit" {
				commitSeen = true
			}
			if commitSeen && sim.IsMutation(e.Kind) {
				positions = append(positions, pos{e.Op, e.Kind, e.Target, stage})
			}
			if e.Kind == "tlog.Add" {
				if i := strings.LastIndexByte(e.Target, '#'); i >= 0 {
					fmt.Sscanf(e.Target[i+1:], "%d", &stage)
				}
			}
		}
		quick := u.Tier != "thorough"
		n := 0
		for pi, p := range positions {
			for _, f := range crashFaultsFor(p.kind, p.target) {
				n++
				if liveness && n%7 != u.Index%7 {
					continue // C09 samples the crash-point space
				}
				if quick && !liveness && len(positions) > 60 && f.Kind == "torn" && pi%3 != 0 {
					continue
				}
				cs := *prog
				f.Task, f.Op, f.Match = "subject", p.op, p.kind
				cs.Faults = []sim.FaultSpec{f}
				curCase = &cs
				cs.Note = fmt.Sprintf("stage%02d", p.stage)
				t0 := time.Now()
				res := Execute(&cs)
				if d := time.Since(t0); d > 5*time.Second {
					fmt.Fprintf(os.Stderr, "SLOW-RUN: crash unit %d fault %v took %v steps %d\n", u.Index, f, d, res.Steps)
				}
				u.Rep.Evals++
				u.Rep.addStats(res)
				u.Rep.Hashes = append(u.Rep.Hashes, res.Hash)
				if res.InfraErr != "" || res.Hang {
					u.Rep.Infra = fmt.Sprintf("run with fault %v: hang=%v %s", f, res.Hang, res.InfraErr)
					return
				}
				if len(res.Sim.Diverged) > 0 {
					u.Rep.Infra = "fault plan diverged: " + strings.Join(res.Sim.Diverged, "; ")
					return
				}
				if !res.Crashed {
					continue
				}
				u.Rep.Sigs = append(u.Rep.Sigs, fmt.Sprintf("%x", fnv(fmt.Sprintf("%d|%d|%s|%s|%d", prog.Seed, p.op, p.kind, f.Kind, f.Arg))))
				for _, v := range oracleCrash(&cs, res, liveness) {
					v.Payload = mustJSON(&cs)
					v.Hash = res.Hash
					u.Rep.Violations = append(u.Rep.Violations, v)
				}
			}
		}
		u.Rep.Exhaustive = !liveness && (!quick || len(positions) <= 60)
		if u.Index < 3 {
			var ops []string
			for i, p := range positions {
				if i < 60 {
					ops = append(ops, fmt.Sprintf("%d:%s %s", p.op, p.kind, filepath.Base(p.target)))
				}
			}
			u.Rep.Samples = append(u.Rep.Samples, map[string]any{"program": defaultSample(prog, pres), "durable_mutations_in_commit": len(positions), "crash_runs": n, "mutations": ops})
		}
	}
}

func replayCrash(liveness bool) func(payload json.RawMessage) []Violation {
	return func(payload json.RawMessage) []Violation {
		var c Case
		if err := json.Unmarshal(payload, &c); err != nil {
			return []Violation{{Class: "bad-replay-file", Msg: err.Error()}}
		}
		res := Execute(&c)
		if res.InfraErr != "" || res.Hang {
			return []Violation{{Class: "replay-infra", Msg: res.InfraErr}}
		}
		vs := oracleCrash(&c, res, liveness)
		for i := range vs {
			vs[i].Hash = res.Hash
			if len(c.Faults) == 0 {
				vs[i].Class = "crash-free/" + vs[i].Class
			}
		}
		return vs
	}
}

func init() {
	Register(&CheckDef{ID: "C08", Level: "fault_enumeration",
		Rule:    "each unit = one sampled program (new store, new root, splits, updates/removes, out-of-node values, two stores; with an earlier committed transaction); a profiling run lists every durable mutation (file create/write/remove/mkdir, registry block write, transaction-log append) the subject performs inside Commit; then one run per mutation and crash variant: process dies before it, right after it, or in the middle of it (registry block torn at every 512-byte boundary and 3 arbitrary lengths; files torn at 4 lengths). After the crash: cold restart, then transactions at +0, +6 min, +75 min, +2 h 10 min, +5 h of simulated time (advanced, not waited) with an observer after each: stores readable, jointly S0 or S0+W, monotone, Count consistent, unrelated store writable. distinct_nontrivial = distinct (program, mutation, crash variant) whose crash fired",
		Exhaust: "per sampled program: every durable mutation inside Commit x {before, after, torn lengths}; quick tier thins torn variants of commits with more than 60 mutations",
		Units: func(tier string) int {
			if tier == "thorough" {
				return 160
			}
			return 16
		},
		Run: runCrashEnum(false), Replay: replayCrash(false), Real: realComponents, Stub: stubComponents,
		Assume:    append([]string{"a crash is simulated inside one OS process: the node's tasks are never resumed, caches/locks/globals are dropped, only files survive; file system metadata operations are atomic and ordered (no lost directory entries)", "recovery is given transactions at the documented waiting periods with time advanced"}, commonAssumptions...),
		UnitLimit: 1200e9})
	Register(&CheckDef{ID: "C09", Level: "exploration",
		Rule: "crash points sampled (1 in 7, rotating) from C08's space for sampled programs; after the crash and a cold restart, later transactions run at +0, +6 min, +75 min, +2 h 10 min, +5 h; at the end (8.6 simulated hours) no transaction or priority log of the crashed transaction may remain and a writer touching the same keys must commit. distinct_nontrivial = distinct (program, mutation, crash variant) whose crash fired",
		Units: func(tier string) int {
			if tier == "thorough" {
				return 320
			}
			return 32
		},
		Run: runCrashEnum(true), Replay: replayCrash(true), Real: realComponents, Stub: stubComponents,
		Assume:    append([]string{"standalone mode (in-memory L2: locks die with the process); clustered/Redis mode not covered", "bounded liveness is stated in simulated hours with transactions flowing at each documented threshold"}, commonAssumptions...),
		UnitLimit: 1200e9})
}
