package checks

import (
	"fmt"
	"math/rand/v2"
	"strings"

	"verif/harness/sim"
)

// C10: no live item or node ever refers to deleted or partially written data.
// C11: finished transactions leave no orphaned blobs, registry entries or logs.

type histOpts struct {
	crashes bool
}

func genHistory(o histOpts) func(r *rand.Rand, tier string) *Case {
	return func(r *rand.Rand, tier string) *Case {
		c := &Case{Seed: r.Uint64(), HashMod: pick(r, 1, 4, 250), Audit: true}
		schedPolicy(r, c)
		ns := 1 + r.IntN(2)
		for i := 0; i < ns; i++ {
			c.Stores = append(c.Stores, StoreSpec{Name: fmt.Sprintf("st%d", i), Slot: pick(r, 2, 4, 8), Unique: true, ValueMode: r.IntN(4), CacheMode: r.IntN(3)})
		}
		c.Stores = append(c.Stores, StoreSpec{Name: "ticks", Slot: 8, Unique: true})
		tickIdx := len(c.Stores) - 1
		keyspace := pick(r, 8, 20)
		m := Model{}
		setup := Txn{Name: "setup", Mode: "w", End: "commit"}
		for i, sp := range c.Stores {
			setup.Create = append(setup.Create, i)
			m[sp.Name] = []KV{}
			if i == tickIdx {
				continue
			}
			for j := 0; j < 2+r.IntN(5); j++ {
				op := Op{K: "add", S: i, Key: 1 + r.IntN(keyspace), Val: fmt.Sprintf("seed%d.%d", i, j)}
				if ok, _, _, _, _ := m.clone().ModelOp(sp.Name, true, op); ok {
					setup.Ops = append(setup.Ops, op)
					m.ModelOp(sp.Name, true, op)
				}
			}
		}
		c.Phases = append(c.Phases, Phase{Kind: "group", Txns: []Txn{setup}})
		var data []int
		for i := range c.Stores {
			if i != tickIdx {
				data = append(data, i)
			}
		}
		rounds := 2 + r.IntN(5)
		tn := 0
		if r.IntN(4) == 0 {
			// drain shape: grow one store to a 3+ level tree, then remove most keys in a chosen order
			// (root collapses, emptied branches), sequentially and without faults
			sp := &c.Stores[0]
			sp.Slot = pick(r, 2, 4)
			n := 20 + r.IntN(40)
			grow := Txn{Name: "grow", Mode: "w", End: "commit", MaxTime: 60}
			for k := 1; k <= n; k++ {
				grow.Ops = append(grow.Ops, Op{K: "upsert", S: 0, Key: 100 + k, Val: fmt.Sprintf("grow.%d", k)})
			}
			c.Phases = append(c.Phases, Phase{Kind: "group", Txns: []Txn{grow}})
			order := make([]int, n)
			for i := range order {
				order[i] = 101 + i
			}
			switch r.IntN(4) {
			case 1:
				for i, j := 0, n-1; i < j; i, j = i+1, j-1 {
					order[i], order[j] = order[j], order[i]
				}
			case 2:
				r.Shuffle(n, func(i, j int) { order[i], order[j] = order[j], order[i] })
			case 3: // odd then even
				var o2 []int
				for _, k := range order {
					if k%2 == 1 {
						o2 = append(o2, k)
					}
				}
				for _, k := range order {
					if k%2 == 0 {
						o2 = append(o2, k)
					}
				}
				order = o2
			}
			keep := r.IntN(3)
			per := pick(r, 3, 10, n)
			for i := 0; i < n-keep; i += per {
				tx := Txn{Name: fmt.Sprintf("drain%d", i), Mode: "w", End: "commit", MaxTime: 60}
				for j := i; j < i+per && j < n-keep; j++ {
					tx.Ops = append(tx.Ops, Op{K: pick(r, "remove", "remove", "rmcur"), S: 0, Key: order[j]})
				}
				c.Phases = append(c.Phases, Phase{Kind: "group", Txns: []Txn{tx}})
			}
			rounds = r.IntN(2)
		}
		var faults []sim.FaultSpec
		for rd := 0; rd < rounds; rd++ {
			n := 1
			if r.IntN(3) == 0 {
				n = 2
			}
			var txs []Txn
			for k := 0; k < n; k++ {
				tx := Txn{Name: fmt.Sprintf("t%d", tn), Mode: "w", End: pick(r, "commit", "commit", "commit", "rollback"), MaxTime: 60}
				tn++
				mm := m.clone()
				tx.Ops = genOps(r, c, mm, data, 1+r.IntN(6), keyspace, tx.Name, []string{"add", "add", "upsert", "update", "update", "remove", "remove", "get"})
				if tx.End == "commit" && n == 1 {
					m = mm // only used to bias later generations; the oracle does not depend on it
				}
				switch r.IntN(6) {
				case 0: // injected failure somewhere in this transaction
					faults = append(faults, sim.FaultSpec{Task: tx.Name, Op: 5 + r.IntN(150), Kind: pick(r, "eio", "enospc", "err")})
				case 1:
					if o.crashes {
						faults = append(faults, sim.FaultSpec{Task: tx.Name, Op: 5 + r.IntN(200), Kind: pick(r, "crash", "crash", "crash_after")})
					}
				}
				txs = append(txs, tx)
			}
			if len(txs) > 1 && r.IntN(2) == 0 {
				txs[1].CommitAfter = txs[0].Name // staggered: bodies overlap, commits do not
			}
			c.Phases = append(c.Phases, Phase{Kind: "group", Txns: txs})
			if r.IntN(4) == 0 {
				c.Phases = append(c.Phases, Phase{Kind: "restart"})
			}
		}
		c.Faults = faults
		// let maintenance run: transactions at the documented thresholds
		for i, adv := range []int{6 * 60, 75 * 60, 130 * 60, 300 * 60} {
			c.Phases = append(c.Phases, Phase{Kind: "advance", Seconds: adv})
			tick := Txn{Name: fmt.Sprintf("tick%d", i), Mode: "w", End: "commit", MaxTime: 60,
				Ops: []Op{{K: "upsert", S: tickIdx, Key: 1 + i, Val: fmt.Sprintf("tick%d.0", i)}}}
			c.Phases = append(c.Phases, Phase{Kind: "group", Txns: []Txn{tick}})
		}
		c.Phases = append(c.Phases, Phase{Kind: "observe_cold", Label: "final"})
		return c
	}
}

func histTag(c *Case, res *Result) string {
	vm := map[int]bool{}
	for _, sp := range c.Stores {
		if sp.Name != "ticks" {
			vm[sp.ValueMode] = true
		}
	}
	tag := ""
	for _, sp := range c.Stores {
		if sp.Name != "ticks" && sp.Slot == 2 {
			tag = "/slot2"
			break
		}
	}
	for _, ph := range c.Phases {
		if ph.Kind == "group" && len(ph.Txns) == 1 && ph.Txns[0].Name == "grow" {
			tag += "/drain"
		}
	}
	if vm[2] || vm[4] {
		tag += "/ap"
		// an explicit Rollback after an Update on an actively persisted store (see the C01 finding)
		rolledBack := false
		for _, ph := range c.Phases {
			for _, tx := range ph.Txns {
				if tx.End == "rollback" {
					for _, op := range tx.Ops {
						if (c.Stores[op.S].ValueMode == 2 || c.Stores[op.S].ValueMode == 4) && (op.K == "update" || op.K == "upsert" || op.K == "updcur") {
							rolledBack = true
						}
					}
				}
			}
		}
		if rolledBack {
			tag += "-update-rolled-back"
		}
	}
	if vm[1] || vm[3] {
		tag += "/outofnode"
	}
	crash, fault := false, false
	for _, f := range res.Sim.Fired {
		if strings.HasPrefix(f.Kind, "crash") || f.Kind == "torn" {
			crash = true
		} else {
			fault = true
		}
	}
	if crash {
		tag += "/crash"
	}
	if fault {
		tag += "/fault"
	}
	conc, overlapping, cold, restarted := false, false, false, false
	for _, ph := range c.Phases {
		if ph.Kind == "restart" {
			restarted = true
		}
		if ph.Kind == "group" && len(ph.Txns) > 1 {
			conc = true
			if ph.Txns[1].CommitAfter == "" {
				overlapping = true
			}
			if restarted {
				cold = true
			}
		}
	}
	if crash {
		cold = cold || conc // a crash restarts the process too
	}
	if conc {
		tag += "/concurrent"
		if !overlapping {
			tag += "-staggered"
		}
		if cold {
			tag += "/coldcache"
		}
	}
	return tag
}

// hasRecoveryWindow: the case still contains all four maintenance ticks (the minimiser must
// not turn "state before recovery had its chance" into a reported violation).
func hasRecoveryWindow(c *Case, res *Result) bool {
	n := 0
	for pi, ph := range c.Phases {
		if ph.Kind == "group" && len(ph.Txns) == 1 && strings.HasPrefix(ph.Txns[0].Name, "tick") {
			if tr := findResult(res, ph.Txns[0].Name, pi); tr != nil {
				n++
			}
		}
	}
	adv := 0
	for _, ph := range c.Phases {
		if ph.Kind == "advance" {
			adv += ph.Seconds
		}
	}
	return n >= 4 && adv >= 8*3600
}

func oracleC10(c *Case, res *Result) []Violation {
	var vs []Violation
	if !hasRecoveryWindow(c, res) {
		return nil
	}
	tag := histTag(c, res)
	for _, t := range res.Txns {
		if t.Outcome == "panic" {
			vs = append(vs, Violation{Class: panicClass(t.Panic) + tag, Msg: t.Name + ": " + t.Panic})
		}
	}
	if res.Audit != nil && len(res.Audit.Dangling) > 0 {
		vs = append(vs, Violation{Class: "dangling-reference" + tag,
			Msg: fmt.Sprintf("raw walk from the store roots finds references that do not load: %v; faults: %s", res.Audit.Dangling, firedSummary(res))})
	}
	if res.Audit != nil && len(res.Audit.BadBlocks) > 0 {
		vs = append(vs, Violation{Class: "bad-registry-block" + tag, Msg: fmt.Sprintf("registry blocks with bad checksum: %v", res.Audit.BadBlocks)})
	}
	for _, o := range res.Obs {
		for _, sp := range c.Stores {
			d := o.Stores[sp.Name]
			if d.Exists && (d.Err != "" || d.ScanErr != "") {
				vs = append(vs, Violation{Class: "traversal-fails" + tag,
					Msg: fmt.Sprintf("cold full traversal of %s through the public API fails: %s%s; faults: %s", sp.Name, d.Err, d.ScanErr, firedSummary(res))})
			}
		}
	}
	return dedupe(vs)
}

func oracleC11(c *Case, res *Result) []Violation {
	var vs []Violation
	tag := histTag(c, res)
	if res.Audit == nil || !hasRecoveryWindow(c, res) {
		return nil
	}
	a := res.Audit
	if len(a.OrphanBlobs) > 0 {
		vs = append(vs, Violation{Class: "orphan-blobs" + tag,
			Msg: fmt.Sprintf("%d blob files are referenced by no store after all transactions finished and maintenance ran for 8.5 simulated hours: %v; outcomes: %s; faults: %s", len(a.OrphanBlobs), head(a.OrphanBlobs, 6), outcomes(res), firedSummary(res))})
	}
	if len(a.OrphanHandles) > 0 {
		vs = append(vs, Violation{Class: "orphan-registry-entries" + tag,
			Msg: fmt.Sprintf("%d registry entries belong to no reachable node: %v; outcomes: %s; faults: %s", len(a.OrphanHandles), head(a.OrphanHandles, 6), outcomes(res), firedSummary(res))})
	}
	if len(a.Logs) > 0 {
		vs = append(vs, Violation{Class: "leftover-logs" + tag,
			Msg: fmt.Sprintf("transaction / priority log / COW files remain: %v; outcomes: %s; faults: %s", head(a.Logs, 6), outcomes(res), firedSummary(res))})
	}
	return vs
}

func head(a []string, n int) []string {
	if len(a) > n {
		return append(append([]string{}, a[:n]...), fmt.Sprintf("... (+%d)", len(a)-n))
	}
	return a
}

func outcomes(res *Result) string {
	var b strings.Builder
	for _, t := range res.Txns {
		if strings.HasPrefix(t.Name, "tick") || t.Name == "setup" {
			continue
		}
		fmt.Fprintf(&b, "%s:%s ", t.Name, t.Outcome)
	}
	return b.String()
}

func nontrivialHist(c *Case, res *Result) string {
	var b strings.Builder
	for _, ph := range c.Phases {
		for _, tx := range ph.Txns {
			for _, o := range tx.Ops {
				fmt.Fprintf(&b, "%s%d.%d,", o.K, o.S, o.Key)
			}
		}
	}
	for _, f := range res.Sim.Fired {
		fmt.Fprintf(&b, "|%s@%s#%d", f.Kind, f.Task, f.Op)
	}
	fmt.Fprintf(&b, "|%x", res.Sim.SchedHash())
	return fmt.Sprintf("%x", fnv(b.String()))
}

func sampleHist(c *Case, res *Result) any {
	s := defaultSample(c, res).(map[string]any)
	if res.Audit != nil {
		s["audit"] = map[string]any{"reachable_nodes": res.Audit.ReachNodes, "reachable_value_blobs": res.Audit.ReachValues, "items_with_ValueNeedsFetch_on_disk": res.Audit.VNFItems,
			"orphan_blobs": len(res.Audit.OrphanBlobs), "orphan_handles": len(res.Audit.OrphanHandles), "logs": len(res.Audit.Logs)}
	}
	return s
}

func init() {
	c10 := &caseCheck{id: "C10", gen: genHistory(histOpts{crashes: true}), oracle: oracleC10, nontrivial: nontrivialHist, sample: sampleHist, perUnit: func(string) int { return 10 }}
	Register(c10.def("exploration",
		"each evaluation = one history of 2-6 rounds (single or two concurrent transactions: adds, upserts, updates, removes; commits and rollbacks) over 1-2 stores with value placement drawn from {in-node, separate segment, actively persisted, globally cached}, with injected I/O/cache failures and crashes (with restart) at PRNG-chosen calls, followed by transactions at +6 min, +75 min, +2 h 10 min, +5 h (maintenance and recovery); then (a) a raw walk from every store root through the registry files: every reachable node blob must exist and parse, every value blob of an item flagged ValueNeedsFetch must exist, no reachable node marked deleted; (b) a cold full traversal through the public API must succeed. distinct_nontrivial = distinct (program, fired faults, schedule)",
		func(tier string) int {
			if tier == "thorough" {
				return 1600
			}
			return 96
		}))
	c11 := &caseCheck{id: "C11", gen: genHistory(histOpts{crashes: false}), oracle: oracleC11, nontrivial: nontrivialHist, sample: sampleHist, perUnit: func(string) int { return 10 }}
	Register(c11.def("exploration",
		"same histories without crashes (commits, rollbacks, injected commit failures, occasional concurrency), then 8.5 simulated hours with transactions at the documented thresholds; oracle = raw audit of the folders: set of blob files == blobs reachable from the store roots, registry entries == reachable logical ids, no .log/.plg/.cow file left. distinct_nontrivial = distinct (program, fired faults, schedule)",
		func(tier string) int {
			if tier == "thorough" {
				return 1600
			}
			return 96
		}))
}
