package checks

import (
	"fmt"
	"math/rand/v2"
	"sort"
	"strings"
)

// C04: concurrent writers with disjoint changes to one store all commit; the store then
// holds the union.  C05: unique stores stay unique.  C06: Count() == scan length.

func concStores(r *rand.Rand, n int) []StoreSpec {
	var out []StoreSpec
	for i := 0; i < n; i++ {
		out = append(out, StoreSpec{Name: fmt.Sprintf("st%d", i), Slot: pick(r, 2, 4, 4, 8), Unique: true,
			ValueMode: pick(r, 0, 0, 0, 1, 3), CacheMode: pick(r, 0, 0, 1, 2)})
	}
	return out
}

func schedPolicy(r *rand.Rand, c *Case) {
	switch r.IntN(4) {
	case 0:
		c.Policy = "pct"
	case 1:
		c.Policy = "random"
		c.Sticky = 0.5
	case 2:
		c.Policy = "random"
		c.Sticky = 0.9
	default:
		c.Policy = "random"
		c.Sticky = 0.98
	}
}

func genC04(r *rand.Rand, tier string) *Case {
	c := &Case{Seed: r.Uint64(), HashMod: pick(r, 1, 4, 250)}
	schedPolicy(r, c)
	c.Stores = concStores(r, 1+r.IntN(2))
	keyspace := pick(r, 12, 24, 60)
	m := Model{}
	setup := setupTxn(r, c, m, 2+r.IntN(keyspace/2), keyspace)
	c.Phases = append(c.Phases, Phase{Kind: "group", Txns: []Txn{setup}})
	if r.IntN(2) == 0 {
		c.Phases = append(c.Phases, Phase{Kind: "restart"})
	}
	nw := 2 + r.IntN(2)
	// partition the key space among writers: writer w owns keys with key % nw == w
	var ws []Txn
	for w := 0; w < nw; w++ {
		tx := Txn{Name: fmt.Sprintf("w%d", w), Mode: "w", End: "commit"}
		n := 1 + r.IntN(6)
		for i := 0; i < n; i++ {
			si := r.IntN(len(c.Stores))
			sp := c.Stores[si]
			key := 1 + r.IntN(keyspace)
			key = key - key%nw + w
			if key < 1 {
				key += nw
			}
			exists := false
			for _, kv := range m[sp.Name] {
				if kv.K == key {
					exists = true
				}
			}
			var k string
			if exists {
				k = pick(r, "update", "remove", "upsert", "get")
			} else {
				k = pick(r, "add", "add", "upsert", "addif")
			}
			op := Op{K: k, S: si, Key: key}
			if k != "remove" && k != "get" {
				op.Val = fmt.Sprintf("%s.%d", tx.Name, i)
			}
			tx.Ops = append(tx.Ops, op)
			m.ModelOp(sp.Name, sp.Unique, op)
		}
		ws = append(ws, tx)
	}
	if r.IntN(3) == 0 {
		// staggered: the writers' bodies overlap (all read the same snapshot) but their commits
		// run one after the other, so every later committer must refetch and merge
		for i := 1; i < len(ws); i++ {
			ws[i].CommitAfter = ws[i-1].Name
		}
	}
	c.Phases = append(c.Phases, Phase{Kind: "group", Txns: ws})
	c.Phases = append(c.Phases, Phase{Kind: "observe", Label: "warm"}, Phase{Kind: "observe_cold", Label: "cold"})
	return c
}

func oracleC04(c *Case, res *Result) []Violation {
	var vs []Violation
	m := Model{}
	gi := lastGroupIdx(c)
	tag := ""
	defer func() {
		for i := range vs {
			vs[i].Class += tag
		}
	}()
	for pi, ph := range c.Phases {
		if ph.Kind != "group" {
			continue
		}
		for ti := range ph.Txns {
			tx := &ph.Txns[ti]
			var tr *TxnResult
			for k := range res.Txns {
				if res.Txns[k].Name == tx.Name && res.Txns[k].Phase == pi {
					tr = &res.Txns[k]
				}
			}
			if tr == nil {
				continue
			}
			if tr.Outcome == "panic" {
				return []Violation{{Class: panicClass(tr.Panic), Msg: tx.Name + ": " + tr.Panic}}
			}
			if pi == gi && tag == "" {
				tag = fmt.Sprintf("/writers%d", len(ph.Txns))
				if len(ph.Txns) > 1 && ph.Txns[1].CommitAfter != "" {
					tag += "/staggered"
				}
				for _, ph2 := range c.Phases[:pi] {
					if ph2.Kind == "restart" {
						tag += "/coldcache"
						break
					}
				}
				for _, sp := range c.Stores {
					if sp.Slot == 2 {
						tag += "/slot2" // minimum slot length: every insert into a full leaf splits
						break
					}
				}
				for _, sp := range c.Stores {
					if len(m[sp.Name]) == 0 {
						tag += "/emptystore"
						break
					}
				}
			}
			if tr.Outcome != "committed" {
				if pi != gi {
					return []Violation{{Class: "setup-failed", Msg: fmt.Sprintf("%s: %s %s %s", tx.Name, tr.Outcome, tr.CommitErr, tr.OpenErr)}}
				}
				e := tr.CommitErr + tr.OpenErr + tr.BeginErr
				for _, o := range tr.Ops {
					e += o.Err
				}
				vs = append(vs, Violation{Class: "disjoint-writer-failed/" + errClass(e),
					Msg: fmt.Sprintf("writer %s (disjoint keys, fault-free, fair schedule, maxTime 15 min) ended %s: %s", tx.Name, tr.Outcome, e)})
				continue
			}
			m.ApplyTxn(c, tx)
		}
	}
	if len(vs) > 0 {
		return vs
	}
	for _, o := range res.Obs {
		for _, sp := range c.Stores {
			d := o.Stores[sp.Name]
			if diff := compareDump(d, m[sp.Name], true); diff != "" {
				vs = append(vs, Violation{Class: "union-mismatch", Msg: fmt.Sprintf("all writers committed but observer %s store %s: %s", o.Label, sp.Name, diff)})
			} else if d.Count != int64(len(d.Items)) {
				vs = append(vs, Violation{Class: "count-mismatch", Msg: fmt.Sprintf("observer %s store %s: Count()=%d, scan has %d", o.Label, sp.Name, d.Count, len(d.Items))})
			}
		}
	}
	return vs
}

// nontrivialConc: distinct interleavings (context-switch hash) of runs in which at least two
// transactions overlapped in time.
func nontrivialConc(c *Case, res *Result) string {
	gi := lastGroupIdx(c)
	type iv struct{ b, e int }
	var ivs []iv
	for _, t := range res.Txns {
		if t.Phase == gi && t.EndSeq > 0 {
			ivs = append(ivs, iv{t.BeginSeq, t.EndSeq})
		}
	}
	overlap := false
	for i := range ivs {
		for j := i + 1; j < len(ivs); j++ {
			if ivs[i].b < ivs[j].e && ivs[j].b < ivs[i].e {
				overlap = true
			}
		}
	}
	if !overlap {
		return ""
	}
	var b strings.Builder
	fmt.Fprintf(&b, "%x|", res.Sim.SchedHash())
	var names []string
	for _, t := range res.Txns {
		if t.Phase == gi {
			names = append(names, t.Name+":"+t.Outcome)
		}
	}
	sort.Strings(names)
	b.WriteString(strings.Join(names, ","))
	return fmt.Sprintf("%x", fnv(b.String()))
}

func init() {
	cc := &caseCheck{id: "C04", gen: genC04, oracle: oracleC04, nontrivial: nontrivialConc, perUnit: func(string) int { return 20 }}
	Register(cc.def("exploration",
		"each evaluation = one seeded store (slot length 2..8 so writers meet in the same leaves and splits) plus 2-3 concurrent writer transactions over disjoint key sets (adds, updates, removes, upserts), interleaved at every intercepted cache/file operation by a seeded scheduler (PCT or sticky random walk), no faults, maxTime 15 simulated minutes; every Commit must succeed and warm+cold dumps must equal the union. distinct_nontrivial = distinct context-switch sequences among runs where at least two writers overlapped",
		func(tier string) int {
			if tier == "thorough" {
				return 1600
			}
			return 96
		}))
}
