package checks

import (
	"context"
	"fmt"
	"math/rand/v2"
	"os"
	"path/filepath"
	"sort"
	"strings"

	"github.com/sharedcode/sop"
	"github.com/sharedcode/sop/fs"
	"github.com/sharedcode/sop/infs"
	"verif/harness/sim"
)

// C27: the passive copy stays a faithful replica and can be reinstated.
//
// Two store folders (registry + store repository replicated from the active to the passive one)
// and node/value blobs erasure coded 1+1 over two drive folders. Histories of creates, commits,
// removals and store drops run one task at a time; the passive side can fail at any of its file
// operations; after fs.TriggerFailover a cold process must see the same stores and contents.

// progCase encoding: Steps K="tx" (S = ops "a3,u2,r1,c:st1" ; End commit|rollback ; N = passive
// failure position, 0 none), "drop" (S store), "failover", "reinstate".

func genC27(r *rand.Rand, tier string) *progCase {
	c := &progCase{Seed: r.Uint64(), Policy: "seq", P: map[string]int{"slot": pick(r, 2, 4, 8), "vmode": pick(r, 0, 0, 1)}}
	stores := []string{"ra", "rb", "rc"}
	exists := map[string]map[int]bool{}
	n := 3 + r.IntN(8)
	failed := false
	withFaults := r.IntN(2) == 0
	c.P["faulty"] = b2i(withFaults)
	for i := 0; i < n; i++ {
		x := r.IntN(20)
		switch {
		case x < 13 || len(exists) == 0:
			// a transaction over 1-2 stores
			var ops []string
			st := pick(r, stores...)
			local := map[int]bool{}
			created := false
			if exists[st] == nil {
				ops = append(ops, "c:"+st)
				created = true
			} else {
				ops = append(ops, "o:"+st)
				for k := range exists[st] {
					local[k] = true
				}
			}
			for j := 0; j < 1+r.IntN(6); j++ {
				k := 1 + r.IntN(12)
				switch {
				case !local[k]:
					ops = append(ops, fmt.Sprintf("a%d", k))
					local[k] = true
				case r.IntN(3) == 0:
					ops = append(ops, fmt.Sprintf("r%d", k))
					delete(local, k)
				default:
					ops = append(ops, fmt.Sprintf("u%d", k))
				}
			}
			end := pick(r, "commit", "commit", "commit", "rollback")
			s := PStep{K: "tx", S: strings.Join(ops, ","), End: end}
			// mostly aim at transactions on existing stores: store creation writes to the passive side
			// through another path (see the known findings)
			if withFaults && !failed && ((!created && r.IntN(2) == 0) || (created && r.IntN(8) == 0)) {
				s.N = 1 + r.IntN(12)
				failed = true // replication is off from here until a reinstate
			}
			c.Steps = append(c.Steps, s)
			if end == "commit" {
				exists[st] = local
			} else if created {
				delete(exists, st)
			}
		case x < 15 && len(exists) > 0:
			var names []string
			for k := range exists {
				names = append(names, k)
			}
			sort.Strings(names)
			st := pick(r, names...)
			c.Steps = append(c.Steps, PStep{K: "drop", S: st})
			delete(exists, st)
		case x < 17 && !failed:
			c.Steps = append(c.Steps, PStep{K: "failover"})
		case x < 20 && failed:
			c.Steps = append(c.Steps, PStep{K: "reinstate"})
			failed = false
		}
	}
	if failed {
		c.Steps = append(c.Steps, PStep{K: "reinstate"})
		// further commits after the reinstate
		c.Steps = append(c.Steps, PStep{K: "tx", S: "c:rz,a1,a2,a3", End: "commit"})
	}
	c.Steps = append(c.Steps, PStep{K: "failover"})
	return c
}

type c27Env struct {
	e       *Env
	folders []string
	ec      map[string]sop.ErasureCodingConfig
}

func (x *c27Env) opts(mode string) sop.TransactionOptions {
	o := x.e.txOptions(mode, 0)
	o.StoresFolders = x.folders
	o.ErasureConfig = x.ec
	return o
}

// dump reads every store through the currently active side.
func (x *c27Env) dump(label string) (map[string]map[int]string, string) {
	out := map[string]map[int]string{}
	errs := ""
	x.e.runTasks([]string{"dump-" + label}, []func(*sim.Task){func(t *sim.Task) {
		ctx := context.Background()
		tr, err := infs.NewTransactionWithReplication(ctx, x.opts("r"))
		if err != nil {
			errs = "NewTransaction: " + err.Error()
			return
		}
		if err := tr.Begin(ctx); err != nil {
			errs = "Begin: " + err.Error()
			return
		}
		defer tr.Rollback(ctx)
		names, err := tr.GetStores(ctx)
		if err != nil {
			errs = "GetStores: " + err.Error()
			return
		}
		sort.Strings(names)
		for _, n := range names {
			b, err := infs.OpenBtreeWithReplication[int, string](ctx, n, tr, nil)
			if err != nil {
				errs += fmt.Sprintf("open %s: %v; ", n, err)
				continue
			}
			m := map[int]string{}
			ok, err := b.First(ctx)
			for i := 0; ok && err == nil && i < scanCap; i++ {
				v, verr := b.GetCurrentValue(ctx)
				if verr != nil {
					errs += fmt.Sprintf("value %s/%d: %v; ", n, b.GetCurrentKey().Key, verr)
					break
				}
				m[b.GetCurrentKey().Key] = v
				ok, err = b.Next(ctx)
			}
			if err != nil {
				errs += fmt.Sprintf("scan %s: %v; ", n, err)
			}
			if int64(len(m)) != b.Count() {
				errs += fmt.Sprintf("count %s: Count()=%d items=%d; ", n, b.Count(), len(m))
			}
			out[n] = m
		}
	}})
	return out, errs
}

func runC27(c *progCase) ([]Violation, *progStats) {
	vs, st, _ := c27Exec(c)
	return vs, st
}

func c27Exec(c *progCase) ([]Violation, *progStats, int) {
	st := &progStats{Probes: map[string]int{}}
	e, err := progEnv(c)
	if err != nil {
		st.InfraErr = err.Error()
		return nil, st, 0
	}
	defer e.Close()
	st.S = e.S
	root := filepath.Dir(e.Folder)
	x := &c27Env{e: e, folders: []string{filepath.Join(root, "f1"), filepath.Join(root, "f2")}}
	d1, d2 := filepath.Join(root, "d1"), filepath.Join(root, "d2")
	for _, d := range append([]string{d1, d2}, x.folders...) {
		os.MkdirAll(d, 0o755)
	}
	x.ec = map[string]sop.ErasureCodingConfig{"": {DataShardsCount: 1, ParityShardsCount: 1, BaseFolderPathsAcrossDrives: []string{d1, d2}, RepairCorruptedShards: false}}
	model := map[string]map[int]string{}
	var vs []Violation
	var hist []string
	tag := ""
	if c.P["faulty"] == 1 {
		tag = "/passive-fault"
	}
	report := func(class, msg string) {
		vs = append(vs, Violation{Class: class + tag, Msg: msg + "\nhistory: " + strings.Join(hist, " | ")})
	}
	activeIdx := func() int {
		if fs.GlobalReplicationDetails != nil && !fs.GlobalReplicationDetails.ActiveFolderToggler {
			return 1
		}
		return 0
	}
	replOff := false
	reinstated := false
	maxPassiveOps := 0
	seq := 0
	for si, s := range c.Steps {
		switch s.K {
		case "tx":
			pending := map[string]map[int]string{}
			for k, v := range model {
				m := map[int]string{}
				for kk, vv := range v {
					m[kk] = vv
				}
				pending[k] = m
			}
			var cerr, oerr error
			passive := x.folders[1-activeIdx()]
			e.W.PassiveDownPrefix = passive
			e.W.PassiveOps, e.W.PassiveFired, e.W.PassiveFailedPath, e.W.PassiveFailedOp = 0, 0, "", ""
			if s.N > 0 {
				e.W.PassiveMode, e.W.PassiveFailAt, e.W.PassiveStay = "at", s.N, c.P["stay"] == 1
			} else {
				e.W.PassiveMode = "count"
			}
			panics := e.runTasks([]string{fmt.Sprintf("tx%d", si)}, []func(*sim.Task){func(t *sim.Task) {
				ctx := context.Background()
				tr, err := infs.NewTransactionWithReplication(ctx, x.opts("w"))
				if err != nil {
					oerr = fmt.Errorf("NewTransaction: %w", err)
					return
				}
				if err := tr.Begin(ctx); err != nil {
					oerr = fmt.Errorf("Begin: %w", err)
					return
				}
				var b b3
				cur := ""
				for _, op := range strings.Split(s.S, ",") {
					seq++
					switch {
					case strings.HasPrefix(op, "c:"):
						cur = op[2:]
						b, err = infs.NewBtreeWithReplication[int, string](ctx, storeOptions(StoreSpec{Name: cur, Slot: c.P["slot"], Unique: true, ValueMode: c.P["vmode"]}), tr, nil)
						if err != nil {
							oerr = fmt.Errorf("NewBtree %s: %w", cur, err)
						} else if pending[cur] == nil {
							pending[cur] = map[int]string{}
						}
					case strings.HasPrefix(op, "o:"):
						cur = op[2:]
						b, err = infs.OpenBtreeWithReplication[int, string](ctx, cur, tr, nil)
						if err != nil {
							oerr = fmt.Errorf("OpenBtree %s: %w", cur, err)
						}
					default:
						var k int
						fmt.Sscanf(op[1:], "%d", &k)
						val := fmt.Sprintf("%s.%d.%d", cur, k, seq)
						var ok bool
						switch op[0] {
						case 'a':
							ok, err = b.Add(ctx, k, val)
							if ok && err == nil {
								pending[cur][k] = val
							}
						case 'u':
							ok, err = b.Update(ctx, k, val)
							if ok && err == nil {
								pending[cur][k] = val
							}
						case 'r':
							ok, err = b.Remove(ctx, k)
							if ok && err == nil {
								delete(pending[cur], k)
							}
						}
						if err != nil {
							oerr = fmt.Errorf("%s: %w", op, err)
						}
					}
					if oerr != nil {
						if tr.HasBegun() {
							tr.Rollback(ctx)
						}
						return
					}
				}
				if s.End == "rollback" {
					tr.Rollback(ctx)
					return
				}
				cerr = tr.Commit(ctx)
			}})
			if e.W.PassiveOps > maxPassiveOps {
				maxPassiveOps = e.W.PassiveOps
			}
			fired := e.W.PassiveFired > 0
			e.W.PassiveDownPrefix, e.W.PassiveMode = "", ""
			hist = append(hist, fmt.Sprintf("tx[%s]%s passive-fail@%d fired=%v(%s %s) -> op=%v commit=%v", s.S, s.End, s.N, fired, e.W.PassiveFailedOp, strings.TrimPrefix(e.W.PassiveFailedPath, root), oerr, cerr))
			if panics[0] != "" {
				report(panicClass(panics[0]), panics[0])
				return vs, finishProg(e, st, c), maxPassiveOps
			}
			flagged := fs.GlobalReplicationDetails != nil && fs.GlobalReplicationDetails.FailedToReplicate
			where := "commit"
			if oerr != nil {
				where = "operation"
				if strings.Contains(oerr.Error(), "NewBtree") {
					where = "store-create"
				}
			}
			if fired {
				st.Probes["passive_failures_fired"]++
			}
			if flagged {
				replOff = true
			}
			if oerr != nil || (s.End == "commit" && cerr != nil) {
				cls := "transaction-failed"
				if fired {
					cls = "passive-failure-affected-transaction"
					where += "/" + e.W.PassiveFailedOp + "-" + fileKind(e.W.PassiveFailedPath)
				}
				report(cls+"/"+where, fmt.Sprintf("step %d: the transaction failed although only the passive side can fail: op=%v commit=%v", si, oerr, cerr))
				return vs, finishProg(e, st, c), maxPassiveOps
			}
			if s.End == "commit" {
				model = pending
			}
			// only a failed WRITE has to turn replication off; a failed open or backup-file removal on the
			// passive side is judged by the failover comparison later
			if fired && !flagged && (e.W.PassiveFailedOp == "write" || e.W.PassiveFailedOp == "mkdir" || e.W.PassiveFailedOp == "create" || e.W.PassiveFailedOp == "removeall") {
				report("passive-failure-not-flagged/"+where+"/"+e.W.PassiveFailedOp+"-"+fileKind(e.W.PassiveFailedPath), fmt.Sprintf("step %d: a passive-side write failed but FailedToReplicate is still false", si))
				return vs, finishProg(e, st, c), maxPassiveOps
			}
			// the active side must match the model after every transaction
			got, derr := x.dump(fmt.Sprint(si))
			if derr != "" || fmt.Sprint(got) != fmt.Sprint(model) {
				cls := "active-side-wrong"
				if fired {
					cls = "passive-failure-affected-active-side"
				}
				report(cls, fmt.Sprintf("step %d: active side shows %v (%s), expected %v", si, got, derr, model))
				return vs, finishProg(e, st, c), maxPassiveOps
			}
		case "drop":
			var derr error
			e.runTasks([]string{fmt.Sprintf("drop%d", si)}, []func(*sim.Task){func(t *sim.Task) {
				derr = infs.RemoveBtree(context.Background(), s.S, x.folders, x.ec, sop.InMemory)
			}})
			hist = append(hist, fmt.Sprintf("drop %s -> %v", s.S, derr))
			if derr != nil {
				report("drop-failed/"+errClass(derr.Error()), fmt.Sprintf("step %d: RemoveBtree(%s): %v", si, s.S, derr))
				return vs, finishProg(e, st, c), maxPassiveOps
			}
			delete(model, s.S)
		case "reinstate":
			var rerr error
			e.runTasks([]string{fmt.Sprintf("reinstate%d", si)}, []func(*sim.Task){func(t *sim.Task) {
				rerr = infs.ReinstateFailedDrives(context.Background(), x.folders, sop.InMemory)
			}})
			hist = append(hist, fmt.Sprintf("reinstate -> %v", rerr))
			if rerr != nil {
				if replOff {
					report("reinstate-failed/"+errClass(rerr.Error()), fmt.Sprintf("step %d: ReinstateFailedDrives: %v", si, rerr))
					return vs, finishProg(e, st, c), maxPassiveOps
				}
			} else {
				if replOff {
					reinstated = true
				}
				replOff = false
			}
		case "failover":
			if replOff {
				hist = append(hist, "failover skipped (replication is off)")
				continue
			}
			var ferr error
			e.runTasks([]string{fmt.Sprintf("failover%d", si)}, []func(*sim.Task){func(t *sim.Task) {
				ferr = fs.TriggerFailover(context.Background(), x.folders, true, e.W.Proxy)
			}})
			hist = append(hist, fmt.Sprintf("failover -> %v", ferr))
			if ferr != nil {
				report("failover-failed/"+errClass(ferr.Error()), fmt.Sprintf("step %d: TriggerFailover: %v", si, ferr))
				return vs, finishProg(e, st, c), maxPassiveOps
			}
			e.W.Restart()
			got, derr := x.dump(fmt.Sprintf("fo%d", si))
			st.Probes["failovers_compared"]++
			if reinstated {
				st.Probes["failovers_compared_after_reinstate"]++
			}
			if derr != "" || fmt.Sprint(got) != fmt.Sprint(model) {
				cls := "replica-differs"
				if reinstated {
					cls = "replica-differs-after-reinstate"
				}
				if derr != "" {
					cls += "/unreadable"
				} else if len(got) != len(model) {
					cls += "/store-list"
				} else {
					cls += "/contents"
				}
				report(cls, fmt.Sprintf("step %d: after failing over, the former passive side shows %v (%s), the committed state is %v", si, got, derr, model))
				return vs, finishProg(e, st, c), maxPassiveOps
			}
		}
	}
	return vs, finishProg(e, st, c), maxPassiveOps
}

func init() {
	pc := &progCheck{id: "C27", perUnit: 10, gen: genC27, run: runC27}
	Register(pc.def("exploration",
		"each evaluation = a seeded history of 3-12 steps over up to 4 stores with two store folders (registry and store repository replicated active -> passive) and blobs erasure coded 1+1 over two drive folders: writer transactions (create or open a store, 1-6 adds/updates/removes, commit or rollback), store drops, fs.TriggerFailover followed by a cold process reading every store through the former passive side, and - in half of the histories - one passive-side file operation (PRNG-chosen position 1..40 within a transaction) failing with EIO, later infs.ReinstateFailedDrives, further commits and a final failover. Oracles: every commit succeeds and the active side equals the model after every transaction whatever the passive side does; a passive failure sets FailedToReplicate; after each failover the store list, contents and counts equal the model. distinct_nontrivial = distinct (history, context-switch sequence)",
		func(tier string) int {
			if tier == "thorough" {
				return 1200
			}
			return 256
		},
		[]string{"fs registry / store repository replication, replication tracker (failure handling, failover, reinstate with copy and fast-forward), commit-change logs, EC blob store, commit path"},
		[]string{"disk through the simulated file layer; the passive folder's failing operation is chosen by the simulator", "one task at a time (fs.globalReplicationDetailsLocker is held across I/O, so replicated histories are not interleaved)"},
		[]string{"standalone in-memory L2 cache", "histories are sequential", "sampling, not proof"}))
}

// fileKind classifies a store-folder path by the kind of file it names.
func fileKind(p string) string {
	b := filepath.Base(p)
	switch {
	case b == "reghashmod.txt" || b == "storelist.txt" || b == "storeinfo.txt" || b == "replstat.txt":
		return b
	case strings.HasSuffix(b, ".reg"):
		return "registry-segment"
	case strings.HasSuffix(b, ".cow"):
		return "registry-backup"
	case strings.HasSuffix(b, ".log") || strings.HasSuffix(b, ".plg"):
		return "log"
	case filepath.Ext(b) == "":
		return "folder"
	}
	return "other"
}
