package checks

import (
	"encoding/json"
	"fmt"
	"hash/crc32"
	"os"
	"path/filepath"
	"sort"
	"strings"

	"github.com/sharedcode/sop"
	"github.com/sharedcode/sop/encoding"
)

// Audit is the result of the raw structural walk of a store folder (no sop read path
// involved beyond the public handle decoder): registry segment files, store info files,
// node blobs (JSON) and value blobs.
type Audit struct {
	Stores        []string
	Dangling      []string // reachable things that do not load
	OrphanBlobs   []string // blob files no committed state references
	OrphanHandles []string // registry entries no store reaches
	Logs          []string // transaction / priority logs, COW files
	ReachNodes    int
	ReachValues   int
	VNFItems      int // items seen on disk with ValueNeedsFetch
	BadBlocks     []string
	DupHandles    []string
}

type rawNode struct {
	ID    string `json:"ID"`
	Slots []struct {
		ID              string `json:"ID"`
		ValueNeedsFetch bool   `json:"ValueNeedsFetch"`
	} `json:"Slots"`
	Count       int      `json:"Count"`
	ChildrenIDs []string `json:"ChildrenIDs"`
}

const nilUUID = "00000000-0000-0000-0000-000000000000"

func blobPath(dir, store, id string) string {
	return filepath.Join(dir, store, string(id[0]), string(id[1]), string(id[2]), string(id[3]), id)
}

// AuditFolder walks dataDir.
func AuditFolder(dataDir string) *Audit {
	a := &Audit{}
	var list []string
	if b, err := os.ReadFile(filepath.Join(dataDir, "storelist.txt")); err == nil {
		json.Unmarshal(b, &list)
	}
	sort.Strings(list)
	a.Stores = list
	referenced := map[string]bool{} // absolute blob file paths referenced by committed state
	for _, st := range list {
		var info struct {
			Root  string `json:"root_node_id"`
			Blob  string `json:"blob_table"`
			Reg   string `json:"registry_table"`
			Count int64  `json:"count"`
		}
		b, err := os.ReadFile(filepath.Join(dataDir, st, "storeinfo.txt"))
		if err != nil || json.Unmarshal(b, &info) != nil {
			a.Dangling = append(a.Dangling, fmt.Sprintf("store %s: storeinfo.txt unreadable", st))
			continue
		}
		// raw registry walk
		handles := map[string]sop.Handle{}
		regs, _ := filepath.Glob(filepath.Join(dataDir, st, "*.reg"))
		sort.Strings(regs)
		he := encoding.NewHandleMarshaler()
		for _, rf := range regs {
			data, err := os.ReadFile(rf)
			if err != nil {
				continue
			}
			for off := 0; off+4096 <= len(data); off += 4096 {
				blk := data[off : off+4096]
				allZero := true
				for _, c := range blk {
					if c != 0 {
						allZero = false
						break
					}
				}
				if allZero {
					continue
				}
				if crc32.ChecksumIEEE(blk[:4092]) != uint32(blk[4092])|uint32(blk[4093])<<8|uint32(blk[4094])<<16|uint32(blk[4095])<<24 {
					a.BadBlocks = append(a.BadBlocks, fmt.Sprintf("%s@%d", filepath.Base(rf), off))
					continue
				}
				for s := 0; s < 66; s++ {
					rec := blk[s*62 : s*62+62]
					zero := true
					for _, c := range rec {
						if c != 0 {
							zero = false
							break
						}
					}
					if zero {
						continue
					}
					var h sop.Handle
					if he.Unmarshal(rec, &h) != nil {
						continue
					}
					id := h.LogicalID.String()
					if _, dup := handles[id]; dup {
						a.DupHandles = append(a.DupHandles, st+":"+id)
					}
					handles[id] = h
				}
			}
		}
		reached := map[string]bool{}
		if info.Root != "" && info.Root != nilUUID {
			queue := []string{info.Root}
			for len(queue) > 0 {
				lid := queue[0]
				queue = queue[1:]
				if reached[lid] {
					continue
				}
				reached[lid] = true
				h, ok := handles[lid]
				if !ok {
					if lid == info.Root && info.Count == 0 {
						continue // a store that never got an item has no root node yet
					}
					a.Dangling = append(a.Dangling, fmt.Sprintf("store %s: node %s has no registry entry", st, lid))
					continue
				}
				if h.IsDeleted {
					a.Dangling = append(a.Dangling, fmt.Sprintf("store %s: reachable node %s is marked deleted", st, lid))
				}
				p := blobPath(dataDir, info.Blob, h.GetActiveID().String())
				referenced[p] = true
				nb, err := os.ReadFile(p)
				if err != nil {
					a.Dangling = append(a.Dangling, fmt.Sprintf("store %s: node %s active blob %s missing", st, lid, h.GetActiveID().String()))
					continue
				}
				var n rawNode
				if err := json.Unmarshal(nb, &n); err != nil {
					a.Dangling = append(a.Dangling, fmt.Sprintf("store %s: node %s blob does not parse: %v", st, lid, err))
					continue
				}
				a.ReachNodes++
				for i, sl := range n.Slots {
					if i >= n.Count {
						break
					}
					if sl.ValueNeedsFetch {
						a.VNFItems++
						vp := blobPath(dataDir, info.Blob, sl.ID)
						referenced[vp] = true
						if _, err := os.Stat(vp); err != nil {
							a.Dangling = append(a.Dangling, fmt.Sprintf("store %s: value blob of item %s missing", st, sl.ID))
						} else {
							a.ReachValues++
						}
					}
				}
				for _, c := range n.ChildrenIDs {
					if c != "" && c != nilUUID {
						queue = append(queue, c)
					}
				}
			}
		}
		for id, h := range handles {
			if !reached[id] {
				a.OrphanHandles = append(a.OrphanHandles, fmt.Sprintf("%s:%s(deleted=%v)", st, id, h.IsDeleted))
			}
		}
	}
	filepath.WalkDir(dataDir, func(p string, d os.DirEntry, err error) error {
		if err != nil || d.IsDir() {
			return nil
		}
		rel, _ := filepath.Rel(dataDir, p)
		base := filepath.Base(p)
		switch {
		case strings.HasSuffix(base, ".log"), strings.HasSuffix(base, ".plg"), strings.HasSuffix(base, ".cow"):
			a.Logs = append(a.Logs, rel)
		case strings.HasSuffix(base, ".reg"), strings.HasSuffix(base, ".txt"):
		default:
			if len(base) == 36 && !referenced[p] {
				a.OrphanBlobs = append(a.OrphanBlobs, rel)
			}
		}
		return nil
	})
	sort.Strings(a.OrphanHandles)
	return a
}
