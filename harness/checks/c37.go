package checks

import (
	"encoding/json"
	"fmt"
	"math/rand/v2"
	"os"
	"path/filepath"
	"sort"
	"strings"

	"github.com/sharedcode/sop"
	"github.com/sharedcode/sop/encoding"
	"verif/harness/sim"
)

// C37: the commit protocol never installs two successors of one node version.
//
// A monitor sits on the simulated disk's block-write path of the registry segment files and turns
// every 4 KiB block write into handle transitions (old image -> new image per slot, with the task
// that wrote it). The implementation traces of concurrent committers and of commits crashed at
// PRNG-chosen points are then checked against the node-version protocol:
//   - install (flip) events: two transactions that both report a successful commit never both
//     flip the same logical id from the same version;
//   - at a flip the newly active physical id must name a complete node blob on disk;
//   - after a crash and recovery the handles the crashed commit had flipped are either all at
//     their post-commit image (every reserved handle got flipped) or all back at the pre-commit
//     image.

type hEvent struct {
	Seq     int        `json:"seq"`
	Task    string     `json:"task"`
	Store   string     `json:"store"`
	Old     sop.Handle `json:"old"`
	New     sop.Handle `json:"new"`
	BlobErr string     `json:"blob_err,omitempty"`
}

type handleMonitor struct {
	e      *Env
	Events []hEvent
	Snaps  map[string]map[sop.UUID]sop.Handle
	labels []string
}

func newHandleMonitor(e *Env) *handleMonitor {
	m := &handleMonitor{e: e, Snaps: map[string]map[sop.UUID]sop.Handle{}}
	he := encoding.NewHandleMarshaler()
	e.W.OnBlockWrite = func(name string, offset int64, block []byte, ft *sim.FaultSpec) {
		if !strings.HasSuffix(name, ".reg") || !strings.HasPrefix(name, e.Folder) {
			return
		}
		if ft != nil && ft.Kind != "crash_after" {
			return // the write does not reach the disk completely; the next event sees what did
		}
		task := "-"
		if t := e.S.Cur(); t != nil {
			task = t.Name
		}
		store := filepath.Base(filepath.Dir(name))
		prev := make([]byte, len(block))
		if f, err := os.Open(name); err == nil {
			f.ReadAt(prev, offset)
			f.Close()
		}
		for b := 0; b+4096 <= len(block); b += 4096 {
			for sl := 0; sl < 66; sl++ {
				o := prev[b+sl*62 : b+sl*62+62]
				n := block[b+sl*62 : b+sl*62+62]
				if string(o) == string(n) {
					continue
				}
				var oh, nh sop.Handle
				if !isZero(o) {
					he.Unmarshal(o, &oh)
				}
				if !isZero(n) {
					he.Unmarshal(n, &nh)
				}
				ev := hEvent{Seq: e.S.Seq(), Task: task, Store: store, Old: oh, New: nh}
				if !nh.LogicalID.IsNil() && nh.GetActiveID() != oh.GetActiveID() && !nh.GetActiveID().IsNil() {
					ev.BlobErr = checkNodeBlob(blobPath(e.Folder, store, nh.GetActiveID().String()), nh.GetActiveID().String())
				}
				m.Events = append(m.Events, ev)
			}
		}
	}
	return m
}

func checkNodeBlob(path, id string) string {
	b, err := os.ReadFile(path)
	if err != nil {
		return "missing: " + filepath.Base(path)
	}
	var n struct {
		ID string `json:"id"`
	}
	if err := json.Unmarshal(b, &n); err != nil {
		return fmt.Sprintf("not a complete node (%d bytes): %v", len(b), err)
	}
	return ""
}

func (m *handleMonitor) snapshot(label string) {
	all := map[sop.UUID]sop.Handle{}
	ents, _ := os.ReadDir(m.e.Folder)
	for _, d := range ents {
		if d.IsDir() {
			hs, _, _ := rawRegistry(filepath.Join(m.e.Folder, d.Name()))
			for k, v := range hs {
				all[k] = v
			}
		}
	}
	m.Snaps[label] = all
	m.labels = append(m.labels, label)
}

// isFlip: the active side of an existing handle changes and the version goes up: an install.
// (A change of the active side that takes the version down again is recovery putting the
// pre-commit image back.)
// finish adds reach probes to the run's statistics.
func (m *handleMonitor) finish(res *Result) {
	p := res.Sim.Probes
	if p == nil {
		return
	}
	flipsBy := map[string]int{}
	resBy := map[string]int{}
	contested := map[string]map[string]bool{}
	for _, ev := range m.Events {
		switch {
		case isFlip(ev):
			p["c37_installs"]++
			flipsBy[ev.Task]++
			k := fmt.Sprintf("%v/%d", ev.Old.LogicalID, ev.Old.Version)
			if contested[k] == nil {
				contested[k] = map[string]bool{}
			}
			contested[k][ev.Task] = true
		case !ev.Old.LogicalID.IsNil() && ev.Old.IsActiveIDB != ev.New.IsActiveIDB:
			p["c37_restores_by_recovery"]++
		case !ev.New.LogicalID.IsNil() && !ev.New.GetInActiveID().IsNil() && ev.New.GetInActiveID() != ev.Old.GetInActiveID():
			p["c37_reservations"]++
			resBy[ev.Task]++
		}
	}
	for _, ts := range contested {
		if len(ts) > 1 {
			p["c37_node_versions_installed_by_two_tasks"]++
		}
	}
	if res.Crashed {
		switch f, r := flipsBy["subject"], resBy["subject"]; {
		case r == 0:
			p["c37_crash_before_reservation"]++
		case f == 0:
			p["c37_crash_after_reservation_before_flip"]++
		case f < r:
			p["c37_crash_mid_flip"]++
		default:
			p["c37_crash_after_all_flips"]++
		}
	}
}

func isFlip(ev hEvent) bool {
	return !ev.Old.LogicalID.IsNil() && ev.Old.LogicalID == ev.New.LogicalID && ev.Old.IsActiveIDB != ev.New.IsActiveIDB && ev.New.Version >= ev.Old.Version
}

func genC37conc(r *rand.Rand, tier string) *Case {
	// 2-3 concurrent committers over 1-3 nodes
	c := &Case{Seed: r.Uint64(), HashMod: pick(r, 1, 4, 250)}
	schedPolicy(r, c)
	c.Stores = []StoreSpec{{Name: "st0", Slot: pick(r, 4, 8, 16), Unique: true, ValueMode: pick(r, 0, 0, 1)}}
	keyspace := pick(r, 3, 6, 10)
	m := Model{}
	setup := setupTxn(r, c, m, keyspace, keyspace)
	c.Phases = append(c.Phases, Phase{Kind: "group", Txns: []Txn{setup}})
	rounds := 1 + r.IntN(2)
	for rd := 0; rd < rounds; rd++ {
		var txs []Txn
		for w := 0; w < 2+r.IntN(2); w++ {
			tx := Txn{Name: fmt.Sprintf("r%dw%d", rd, w), Mode: "w", End: "commit", MaxTime: 60}
			for i := 0; i < 1+r.IntN(3); i++ {
				tx.Ops = append(tx.Ops, Op{K: pick(r, "update", "update", "upsert", "remove", "add"), S: 0, Key: 1 + r.IntN(keyspace+2), Val: fmt.Sprintf("%s.%d", tx.Name, i)})
			}
			txs = append(txs, tx)
		}
		c.Phases = append(c.Phases, Phase{Kind: "group", Txns: txs})
	}
	c.Note = "concurrent"
	c.Monitor = "handles"
	return c
}

// runC37 : even units run concurrent committers; odd units take one crash program, profile it
// and crash the subject's commit before and after every registry block write it makes (and at a
// sample of its other durable mutations), then run the recovery schedule.
func runC37(cc *caseCheck) func(u *Unit) {
	return func(u *Unit) {
		if u.Index%2 == 0 {
			cc.run(u)
			return
		}
		prog := genCrashProgram(u.Rng)
		// recovery needs fewer ticks here: keep the schedule but drop the per-tick observations except the last
		prog.Monitor = "handles"
		prog.Note = "crash"
		prof := *prog
		prof.KeepLog = true
		pres := Execute(&prof)
		u.Rep.Evals++
		u.Rep.addStats(pres)
		if pres.InfraErr != "" || pres.Hang {
			u.Rep.Infra = "profile run failed: " + pres.InfraErr
			return
		}
		for _, v := range oracleC37(&prof, pres) {
			v.Payload = mustJSON(&prof)
			v.Hash = pres.Hash
			u.Rep.Violations = append(u.Rep.Violations, v)
		}
		type pos struct {
			op   int
			kind string
			reg  bool
		}
		var positions []pos
		commitSeen := false
		for _, e := range pres.Sim.Log {
			if e.Task != "subject" {
				continue
			}
			if e.Kind == "mark.commit" {
				commitSeen = true
			}
			if commitSeen && sim.IsMutation(e.Kind) {
				positions = append(positions, pos{e.Op, e.Kind, e.Kind == "dio.WriteAt" && strings.Contains(e.Target, ".reg")})
			}
		}
		quick := u.Tier != "thorough"
		n := 0
		for pi, p := range positions {
			if !p.reg && ((quick && pi%6 != u.Index%6) || (!quick && pi%2 != u.Index%2)) {
				continue
			}
			for _, kind := range []string{"crash", "crash_after"} {
				cs := *prog
				cs.Faults = []sim.FaultSpec{{Task: "subject", Op: p.op, Kind: kind, Match: p.kind}}
				curCase = &cs
				res := Execute(&cs)
				n++
				u.Rep.Evals++
				u.Rep.addStats(res)
				u.Rep.Hashes = append(u.Rep.Hashes, res.Hash)
				if res.InfraErr != "" || res.Hang {
					u.Rep.Infra = fmt.Sprintf("run with crash at op %d: hang=%v %s", p.op, res.Hang, res.InfraErr)
					return
				}
				if len(res.Sim.Diverged) > 0 {
					u.Rep.Infra = "fault plan diverged: " + strings.Join(res.Sim.Diverged, "; ")
					return
				}
				if !res.Crashed {
					continue
				}
				u.Rep.Sigs = append(u.Rep.Sigs, fmt.Sprintf("%x", fnv(fmt.Sprintf("%d|%d|%s", prog.Seed, p.op, kind))))
				for _, v := range oracleC37(&cs, res) {
					v.Property = "C37"
					v.Payload = mustJSON(&cs)
					v.Hash = res.Hash
					u.Rep.Violations = append(u.Rep.Violations, v)
				}
			}
		}
		if u.Index < 4 && len(u.Rep.Samples) == 0 {
			u.Rep.Samples = append(u.Rep.Samples, map[string]any{"program": defaultSample(prog, pres), "durable_mutations_in_commit": len(positions), "crash_runs": n})
		}
	}
}

func oracleC37(c *Case, res *Result) []Violation {
	m := res.Handles
	if m == nil {
		return []Violation{{Class: "infra", Msg: "no handle monitor"}}
	}
	var vs []Violation
	tag := "/" + c.Note
	outcome := map[string]string{}
	for _, t := range res.Txns {
		if outcome[t.Name] != "committed" {
			outcome[t.Name] = t.Outcome
		}
	}
	// 1. at most one successful installer per (logical id, version)
	type key struct {
		lid sop.UUID
		ver int32
	}
	installers := map[key][]string{}
	for _, ev := range m.Events {
		if isFlip(ev) {
			k := key{ev.Old.LogicalID, ev.Old.Version}
			if !containsStr(installers[k], ev.Task) {
				installers[k] = append(installers[k], ev.Task)
			}
			if ev.New.Version != ev.Old.Version+1 {
				vs = append(vs, Violation{Class: "flip-without-version-bump" + tag, Msg: fmt.Sprintf("task %s flipped %v from version %d to version %d", ev.Task, ev.Old.LogicalID, ev.Old.Version, ev.New.Version)})
			}
			if ev.BlobErr != "" {
				vs = append(vs, Violation{Class: "flip-to-incomplete-data" + tag, Msg: fmt.Sprintf("task %s made physical id %v the active id of node %v while its blob is %s", ev.Task, ev.New.GetActiveID(), ev.New.LogicalID, ev.BlobErr)})
			}
		}
	}
	var keys []key
	for k := range installers {
		keys = append(keys, k)
	}
	sort.Slice(keys, func(i, j int) bool {
		if keys[i].lid != keys[j].lid {
			return keys[i].lid.String() < keys[j].lid.String()
		}
		return keys[i].ver < keys[j].ver
	})
	for _, k := range keys {
		var ok []string
		for _, t := range installers[k] {
			if outcome[t] == "committed" {
				ok = append(ok, t)
			}
		}
		if len(ok) > 1 {
			vs = append(vs, Violation{Class: "two-successors-installed" + tag, Msg: fmt.Sprintf("transactions %v all committed successfully and each flipped node %v from version %d to its own successor", ok, k.lid, k.ver)})
		}
	}
	// 2. crash and recovery
	if res.Crashed && len(m.labels) > 0 {
		var rec string
		for _, l := range m.labels {
			if strings.HasPrefix(l, "rec") {
				rec = l
			}
		}
		snap := m.Snaps[rec]
		reserved := map[sop.UUID]sop.UUID{} // lid -> inactive id the subject reserved
		pre := map[sop.UUID]sop.Handle{}
		post := map[sop.UUID]sop.Handle{}
		for _, ev := range m.Events {
			if ev.Task != "subject" || ev.New.LogicalID.IsNil() || ev.Old.LogicalID.IsNil() {
				continue
			}
			lid := ev.New.LogicalID
			if _, seen := pre[lid]; !seen {
				pre[lid] = ev.Old
			}
			if !isFlip(ev) && !ev.New.GetInActiveID().IsNil() && ev.New.GetInActiveID() != ev.Old.GetInActiveID() {
				reserved[lid] = ev.New.GetInActiveID()
			}
			if isFlip(ev) {
				post[lid] = ev.New
			}
		}
		if snap != nil && len(reserved) > 0 {
			complete := len(post) == len(reserved)
			stage := "partial-flip"
			if len(post) == 0 {
				stage = "no-flip"
			} else if complete {
				stage = "all-flipped"
			}
			var lids []sop.UUID
			for lid := range reserved {
				lids = append(lids, lid)
			}
			sort.Slice(lids, func(i, j int) bool { return lids[i].String() < lids[j].String() })
			for _, lid := range lids {
				h, ok := snap[lid]
				if !ok {
					continue // removed later (store dropped by recovery of a created store)
				}
				p := pre[lid]
				switch {
				case complete:
					if h.GetActiveID() != post[lid].GetActiveID() && h.GetActiveID() != p.GetActiveID() {
						vs = append(vs, Violation{Class: "recovered-handle-neither-pre-nor-post/" + stage + tag, Msg: fmt.Sprintf("node %v after recovery (%s) has active id %v; pre-commit %v, post-commit %v", lid, rec, h.GetActiveID(), p.GetActiveID(), post[lid].GetActiveID())})
					}
				default:
					if h.GetActiveID() != p.GetActiveID() || h.Version != p.Version {
						vs = append(vs, Violation{Class: "recovered-handle-not-pre-commit/" + stage + tag, Msg: fmt.Sprintf("the crashed commit flipped %d of the %d handles it had reserved; after recovery (%s) node %v is at version %d active %v, its pre-commit image was version %d active %v", len(post), len(reserved), rec, lid, h.Version, h.GetActiveID(), p.Version, p.GetActiveID())})
					}
				}
			}
			if complete {
				// all-or-nothing over the flipped set
				nPost, nPre := 0, 0
				for _, lid := range lids {
					if h, ok := snap[lid]; ok {
						if h.GetActiveID() == post[lid].GetActiveID() {
							nPost++
						} else if h.GetActiveID() == pre[lid].GetActiveID() {
							nPre++
						}
					}
				}
				if nPost > 0 && nPre > 0 {
					vs = append(vs, Violation{Class: "recovered-handles-mixed/" + stage + tag, Msg: fmt.Sprintf("after recovery %d handles of the crashed commit are at their post-commit image and %d at the pre-commit image", nPost, nPre)})
				}
			}
		}
	}
	return dedupe(vs)
}

func nontrivialC37(c *Case, res *Result) string {
	if res.Handles == nil {
		return ""
	}
	flips := 0
	for _, ev := range res.Handles.Events {
		if isFlip(ev) {
			flips++
		}
	}
	if flips == 0 {
		return ""
	}
	return fmt.Sprintf("%x", fnv(fmt.Sprintf("%d|%x|%v", c.Seed, res.Sim.SchedHash(), res.Sim.Fired)))
}

func init() {
	cc := &caseCheck{id: "C37", gen: genC37conc, oracle: oracleC37, nontrivial: nontrivialC37, perUnit: func(string) int { return 12 }}
	d := cc.def("exploration",
		"implementation traces checked against the node-version protocol: a monitor on the simulated disk decodes every registry block write into handle transitions (task, old image, new image). Even units: 12 evaluations of 1-2 rounds of 2-3 concurrent committers over a 3-10 key store (1-3 nodes) under seeded schedules. Odd units: one seeded program whose commit is crashed before and after EVERY registry block write it makes plus a sample of its other durable mutations, followed by the recovery schedule (restart, clock advanced to the documented thresholds, further transactions). Oracles: two transactions that both commit successfully never both flip one (node, version); a flip bumps the version by one and its new active id names a complete node blob at that instant; after recovery the crashed commit's handles are all post-commit (only if it had flipped every reserved handle) or all pre-commit (a leftover reserved id with an expired timestamp is reclaimable by design and not judged). distinct_nontrivial = distinct (case, schedule) with a flip, or distinct crash points that fired",
		func(tier string) int {
			if tier == "thorough" {
				return 480
			}
			return 48
		})
	d.Run = runC37(cc)
	Register(d)
}
