package checks

import (
	"fmt"
	"math/rand/v2"
	"strings"
)

// C17 / C18 / C19: sequential programs against the ordered multiset / map model. One task,
// transactions committed one after another, cold restarts in between; every call's return
// value is compared with the model, and the final ordered dump must equal it.

type seqParams struct {
	id        string
	stores    func(r *rand.Rand) []StoreSpec
	kinds     []string
	keyspaces []int
	txns      func(r *rand.Rand) int
	opsPerTxn func(r *rand.Rand) int
	pad       func(r *rand.Rand) int
}

func genSeq(p seqParams) func(r *rand.Rand, tier string) *Case {
	return func(r *rand.Rand, tier string) *Case {
		c := &Case{Seed: r.Uint64(), Policy: "seq", HashMod: pick(r, 1, 3, 250), NoLat: true, BackScan: true}
		c.Stores = p.stores(r)
		keyspace := p.keyspaces[r.IntN(len(p.keyspaces))]
		base := 1
		if r.IntN(8) == 0 {
			base = 0 // the key type's zero value is a legal key: explored in its own sub-batch
		}
		m := Model{}
		setup := Txn{Name: "setup", Mode: "w", End: "commit"}
		for i, sp := range c.Stores {
			setup.Create = append(setup.Create, i)
			m[sp.Name] = []KV{}
		}
		c.Phases = append(c.Phases, Phase{Kind: "group", Txns: []Txn{setup}})
		all := []int{}
		for i := range c.Stores {
			all = append(all, i)
		}
		nt := p.txns(r)
		for t := 0; t < nt; t++ {
			tx := Txn{Name: fmt.Sprintf("t%d", t), Mode: "w", End: "commit"}
			if r.IntN(8) == 0 {
				tx.End = "rollback"
			}
			mm := m
			if tx.End == "rollback" {
				mm = m.clone()
			}
			n := p.opsPerTxn(r)
			for i := 0; i < n; i++ {
				si := all[r.IntN(len(all))]
				sp := c.Stores[si]
				k := p.kinds[r.IntN(len(p.kinds))]
				key := base + r.IntN(keyspace)
				cur := mm[sp.Name]
				if (k == "remove" || k == "update" || k == "updcur" || k == "rmcur" || k == "get" || k == "updkey" || k == "findfirst" || k == "finddesc" || k == "findid") && len(cur) > 0 && r.IntN(4) != 0 {
					key = cur[r.IntN(len(cur))].K
				}
				op := Op{K: k, S: si, Key: key}
				switch k {
				case "add", "addif", "upsert", "update", "updcur":
					op.Val = fmt.Sprintf("%s.%d", tx.Name, i)
					if p.pad != nil {
						op.Pad = p.pad(r)
					}
				case "range", "rrange":
					op.Hi = key + r.IntN(keyspace/2+1)
				case "scan", "rscan":
					op.N = pick(r, 0, 0, 3, 10)
				case "findid":
					op.N = r.IntN(8)
				}
				tx.Ops = append(tx.Ops, op)
				mm.ModelOp(sp.Name, sp.Unique, op)
			}
			c.Phases = append(c.Phases, Phase{Kind: "group", Txns: []Txn{tx}})
			if r.IntN(3) == 0 {
				c.Phases = append(c.Phases, Phase{Kind: "restart"})
			}
		}
		// a cold process reads everything, and then once more (the first pass refills the caches)
		c.Phases = append(c.Phases, Phase{Kind: "observe_cold", Label: "final"}, Phase{Kind: "observe", Label: "final-second-read"})
		return c
	}
}

// oracleSeq replays the programs on the model following the *model's* semantics and compares
// every returned value. After the first disagreement on a store that store's model follows
// what the implementation reported, so that one defect is reported once per class.
func oracleSeq(c *Case, res *Result) []Violation {
	var vs []Violation
	zk := ""
	if zeroKeyCase(c) {
		zk = "/zerokey"
	}
	add := func(class, msg string) {
		class += zk
		for _, v := range vs {
			if v.Class == class {
				return
			}
		}
		vs = append(vs, Violation{Class: class, Msg: msg})
	}
	m := Model{}
	poisoned := map[string]bool{}
	for pi, ph := range c.Phases {
		if ph.Kind != "group" {
			continue
		}
		tx := &ph.Txns[0]
		var tr *TxnResult
		for k := range res.Txns {
			if res.Txns[k].Name == tx.Name && res.Txns[k].Phase == pi {
				tr = &res.Txns[k]
			}
		}
		if tr == nil {
			add("missing-result", "no result for "+tx.Name)
			continue
		}
		if tr.Outcome == "panic" {
			add(panicClass(tr.Panic), tx.Name+" panicked: "+tr.Panic)
			return vs
		}
		for _, idx := range tx.Create {
			if _, ok := m[c.Stores[idx].Name]; !ok {
				m[c.Stores[idx].Name] = []KV{}
			}
		}
		if tr.OpenErr != "" || tr.BeginErr != "" {
			add("open-failed", fmt.Sprintf("%s: begin/open failed in a fault-free sequential run: %s%s", tx.Name, tr.BeginErr, tr.OpenErr))
			continue
		}
		mm := m.clone()
		for i, op := range tx.Ops {
			if i >= len(tr.Ops) {
				break
			}
			sp := c.Stores[op.S]
			got := tr.Ops[i]
			if got.Err != "" {
				add("op-error/"+op.K+vtag(sp), fmt.Sprintf("%s op %d %s(%d) on %s returned error: %s", tx.Name, i, op.K, op.Key, sp.Name, got.Err))
				poisoned[sp.Name] = true
				break
			}
			if poisoned[sp.Name] {
				continue
			}
			wok, wval, witems, wcount, amb := mm.ModelOp(sp.Name, sp.Unique, op)
			if amb {
				poisoned[sp.Name] = true
				continue
			}
			desc := fmt.Sprintf("%s op %d %s(key=%d) on %s (slot %d unique=%v balance=%v vmode=%d)", tx.Name, i, op.K, op.Key, sp.Name, sp.Slot, sp.Unique, sp.Balance, sp.ValueMode)
			switch op.K {
			case "add", "addif", "upsert", "update", "updkey", "remove", "find", "updcur", "rmcur":
				if got.OK != wok {
					add("return-value/"+op.K+vtag(sp), fmt.Sprintf("%s returned %v, model says %v; model items: [%s]", desc, got.OK, wok, kvString(mm[sp.Name])))
					poisoned[sp.Name] = true
				}
			case "get":
				if got.OK != wok || (wok && got.Val != wval) {
					add("get/"+vtag(sp), fmt.Sprintf("%s returned (%v,%q), model says (%v,%q)", desc, got.OK, got.Val, wok, wval))
					poisoned[sp.Name] = true
				}
			case "count":
				if got.Count != wcount {
					add("count/"+vtag(sp), fmt.Sprintf("%s returned %d, model says %d", desc, got.Count, wcount))
					poisoned[sp.Name] = true
				}
			case "scan", "rscan", "range", "rrange":
				if !sameScan(got.Items, witems, op.N) {
					add(op.K+"/"+vtag(sp), fmt.Sprintf("%s [%d,%d] n=%d returned [%s], model says [%s]", desc, op.Key, op.Hi, op.N, kvString(got.Items), kvString(witems)))
					poisoned[sp.Name] = true
				}
			case "findfirst", "finddesc":
				if got.OK != wok || !sameItems(got.Items, witems) {
					add(op.K+"/"+vtag(sp), fmt.Sprintf("%s returned %v and walked [%s] over equal keys, model has [%s] (cursor not on the first/last of equal keys?)", desc, got.OK, kvString(got.Items), kvString(witems)))
					poisoned[sp.Name] = true
				}
			case "findid":
				if !sameItems(got.Items, witems) {
					add("findid-walk/"+vtag(sp), fmt.Sprintf("%s walked [%s], model has [%s]", desc, kvString(got.Items), kvString(witems)))
					poisoned[sp.Name] = true
				} else if len(witems) > 0 && (!got.OK || got.Val != got.Items[int(got.Count)].V) {
					add("findid/"+vtag(sp), fmt.Sprintf("%s FindWithID(dup #%d) returned (%v,%q), expected %q", desc, got.Count, got.OK, got.Val, got.Items[int(got.Count)].V))
					poisoned[sp.Name] = true
				}
			}
		}
		switch {
		case tx.End == "commit" && tr.Outcome == "committed":
			m = mm
		case tx.End == "commit" && len(tr.Ops) == len(tx.Ops) && tr.Outcome == "failed":
			add("commit-failed", fmt.Sprintf("%s: commit failed in a fault-free sequential run: %s", tx.Name, tr.CommitErr))
		}
	}
	for _, o := range res.Obs {
		if o.Err != "" {
			add("observer-error", o.Err)
			continue
		}
		for _, sp := range c.Stores {
			if poisoned[sp.Name] {
				continue
			}
			d := o.Stores[sp.Name]
			w, exists := m[sp.Name]
			if diff := compareDump(d, w, exists); diff != "" {
				cls := "final-dump/"
				if strings.HasPrefix(diff, "cannot open") || strings.HasPrefix(diff, "scan failed") {
					cls = "final-unreadable/"
				}
				add(cls+vtag(sp), fmt.Sprintf("final dump ("+o.Label+") of %s (slot %d unique=%v vmode=%d): %s", sp.Name, sp.Slot, sp.Unique, sp.ValueMode, diff))
				continue
			}
			if d.Count != int64(len(w)) {
				add("final-count/"+vtag(sp), fmt.Sprintf("final Count() of %s = %d, model has %d items", sp.Name, d.Count, len(w)))
			}
			// backward scan must be the reverse
			if c.BackScan && !sameSeq(d.Back, w, true) {
				add("final-backward/"+vtag(sp), fmt.Sprintf("backward scan of %s: [%s], model (forward): [%s]", sp.Name, kvString(d.Back), kvString(w)))
			}
		}
	}
	return vs
}

// zeroKeyCase reports whether the program uses the zero value of the key type as a key.
func zeroKeyCase(c *Case) bool {
	for _, ph := range c.Phases {
		for _, tx := range ph.Txns {
			for _, o := range tx.Ops {
				if o.Key == 0 && o.K != "count" && o.K != "scan" && o.K != "rscan" {
					return true
				}
			}
		}
	}
	return false
}

func vtag(sp StoreSpec) string {
	u := "dup"
	if sp.Unique {
		u = "uniq"
	}
	if sp.Balance {
		u += "/balanced"
	}
	return fmt.Sprintf("%s/vmode%d", u, sp.ValueMode)
}

// sameScan compares a possibly truncated scan (first n items, n=0: all) with the model's
// full item sequence in scan order: keys must agree position by position, each value must
// be one of the model's values for that key (each used at most once).
func sameScan(got, full []KV, n int) bool {
	want := len(full)
	if n > 0 && n < want {
		want = n
	}
	if len(got) != want {
		return false
	}
	used := make([]bool, len(full))
	for i, g := range got {
		if g.K != full[i].K {
			return false
		}
		found := false
		for j := range full {
			if !used[j] && full[j] == g {
				used[j] = true
				found = true
				break
			}
		}
		if !found {
			return false
		}
	}
	return true
}

// sameSeq compares two item sequences; keys must match position by position (reversed when
// rev), values are compared as multisets within runs of equal keys.
func sameSeq(got, want []KV, rev bool) bool {
	if len(got) != len(want) {
		return false
	}
	w := append([]KV{}, want...)
	if rev && len(w) > 0 && !(len(w) > 1 && w[0].K > w[len(w)-1].K) {
		// want given in ascending order: reverse it
		asc := true
		for i := 1; i < len(w); i++ {
			if w[i-1].K > w[i].K {
				asc = false
			}
		}
		if asc {
			for i, j := 0, len(w)-1; i < j; i, j = i+1, j-1 {
				w[i], w[j] = w[j], w[i]
			}
		}
	}
	for i := range got {
		if got[i].K != w[i].K {
			return false
		}
	}
	return sameItems(got, w)
}

func nontrivialSeq(c *Case, res *Result) string {
	var b strings.Builder
	n := 0
	for _, ph := range c.Phases {
		for _, tx := range ph.Txns {
			for _, o := range tx.Ops {
				fmt.Fprintf(&b, "%s%d.%d,", o.K, o.S, o.Key)
				n++
			}
		}
	}
	if n < 3 {
		return ""
	}
	for _, sp := range c.Stores {
		fmt.Fprintf(&b, "|%d%v%v%d", sp.Slot, sp.Unique, sp.Balance, sp.ValueMode)
	}
	return fmt.Sprintf("%x", fnv(b.String()))
}

var seqKinds17 = []string{"add", "add", "add", "addif", "upsert", "update", "updcur", "updkey", "remove", "remove", "rmcur", "find", "get", "count", "scan", "rscan"}
var seqKinds18 = []string{"add", "add", "add", "remove", "upsert", "findfirst", "finddesc", "findid", "range", "rrange", "range", "rrange", "get"}

func init() {
	c17 := &caseCheck{id: "C17", oracle: oracleSeq, nontrivial: nontrivialSeq, perUnit: func(string) int { return 6 },
		gen: genSeq(seqParams{
			stores: func(r *rand.Rand) []StoreSpec {
				return []StoreSpec{{Name: "st0", Slot: pick(r, 2, 2, 3, 4, 5, 8, 16, 64), Unique: r.IntN(3) != 0, Balance: r.IntN(2) == 0, ValueMode: 0}}
			},
			kinds: seqKinds17, keyspaces: []int{6, 16, 60, 400},
			txns:      func(r *rand.Rand) int { return 2 + r.IntN(8) },
			opsPerTxn: func(r *rand.Rand) int { return pick(r, 3, 10, 30, 80) },
		})}
	Register(c17.def("exploration",
		"each evaluation = one generated sequential program (2-9 transactions of 3-80 B-tree calls: Add/AddIfNotExist/Upsert/Update/UpdateKey/Remove/Find/Get/Count/forward+backward scans; slot length 2..64, unique or duplicate keys, load balancing on/off, key spaces 6..400, cold restarts between transactions, some rolled back) executed through infs on the simulated disk; every return value, Count and scan is compared with an ordered multiset/map model, plus the final cold forward and backward dump. distinct_nontrivial = distinct (program, store options) with >= 3 calls",
		func(tier string) int {
			if tier == "thorough" {
				return 1600
			}
			return 96
		}))
	c18 := &caseCheck{id: "C18", oracle: oracleSeq, nontrivial: nontrivialSeq, perUnit: func(string) int { return 6 },
		gen: genSeq(seqParams{
			stores: func(r *rand.Rand) []StoreSpec {
				return []StoreSpec{{Name: "st0", Slot: pick(r, 2, 2, 3, 4, 5, 8, 16), Unique: r.IntN(3) == 0, Balance: r.IntN(2) == 0, ValueMode: 0}}
			},
			kinds: seqKinds18, keyspaces: []int{4, 10, 30, 120},
			txns:      func(r *rand.Rand) int { return 2 + r.IntN(6) },
			opsPerTxn: func(r *rand.Rand) int { return pick(r, 5, 15, 40, 80) },
		})}
	Register(c18.def("exploration",
		"each evaluation = one generated sequential program mixing writes with Find(first)+walk over equal keys, FindInDescendingOrder+backward walk, FindWithID on the n-th duplicate, and ascending/descending range scans [lo,hi] started from a probe that may miss (before, between, after stored keys); duplicate-heavy key spaces (4..120 keys), slot length 2..16, cold restarts; results compared with the ordered multiset model. distinct_nontrivial = distinct (program, store options)",
		func(tier string) int {
			if tier == "thorough" {
				return 1600
			}
			return 96
		}))
	c19 := &caseCheck{id: "C19", oracle: oracleSeq, nontrivial: nontrivialSeq, perUnit: func(string) int { return 5 },
		gen: genSeq(seqParams{
			stores: func(r *rand.Rand) []StoreSpec {
				n := 1 + r.IntN(2)
				var out []StoreSpec
				for i := 0; i < n; i++ {
					out = append(out, StoreSpec{Name: fmt.Sprintf("st%d", i), Slot: pick(r, 2, 3, 4, 5, 7, 8, 32), Unique: r.IntN(4) != 0,
						Balance: r.IntN(3) == 0, ValueMode: r.IntN(5), CacheMode: r.IntN(3)})
				}
				return out
			},
			kinds: []string{"add", "add", "add", "addif", "upsert", "upsert", "update", "update", "updcur", "remove", "remove", "rmcur", "get", "scan", "count"}, keyspaces: []int{8, 30, 200},
			txns:      func(r *rand.Rand) int { return 2 + r.IntN(8) },
			opsPerTxn: func(r *rand.Rand) int { return pick(r, 1, 4, 12, 40) },
			pad: func(r *rand.Rand) int {
				return pick(r, 0, 0, 0, 1, 100, 5000, 70000, 1100000)
			},
		})}
	Register(c19.def("exploration",
		"each evaluation = one generated sequential program over 1-2 stores with value placement in {in-node, separate segment, actively persisted, globally cached}, cache durations {default, minimum, long+TTL}, slot length {2,4,8,32}, value sizes 0 B .. 1.1 MB, random batching into 2-9 transactions (some rolled back) and cold restarts; every read and the final cold ordered (key,value) dump must equal the in-memory model. distinct_nontrivial = distinct (program, store options)",
		func(tier string) int {
			if tier == "thorough" {
				return 1200
			}
			return 64
		}))
}
