package checks

import (
	"context"
	"fmt"
	"math/rand/v2"
	"sort"
	"strings"

	"github.com/sharedcode/sop"
	"github.com/sharedcode/sop/infs"
	"verif/harness/sim"
)

// C14: transaction modes and lifecycle are enforced. Seeded sequences of lifecycle calls
// interleaved with store operations, in every mode, against a small lifecycle state machine;
// the persisted contents are read back by a cold process afterwards.

func genC14(r *rand.Rand, tier string) *progCase {
	c := &progCase{Seed: r.Uint64(), Policy: "seq", Kind: pick(r, "w", "w", "r", "n"), P: map[string]int{"vmode": pick(r, 0, 0, 1, 2), "slot": pick(r, 2, 4, 8)}}
	n := 3 + r.IntN(10)
	life := []string{"begin", "commit", "rollback", "p1", "p2"}
	ops := []string{"add", "upd", "rm", "get", "find", "upsert", "open", "new"}
	if r.IntN(10) < 7 {
		// most programs start sensibly so that the later misuse happens on a live transaction
		c.Steps = append(c.Steps, PStep{K: "begin"}, PStep{K: "open"})
	}
	for i := 0; i < n; i++ {
		if r.IntN(5) < 2 {
			c.Steps = append(c.Steps, PStep{K: pick(r, life...)})
		} else {
			c.Steps = append(c.Steps, PStep{K: pick(r, ops...), Key: 1 + r.IntN(8)})
		}
	}
	if r.IntN(3) == 0 {
		c.Steps = append(c.Steps, PStep{K: "close"})
	}
	// a third of the programs meet one I/O or cache failure at a PRNG-chosen call of the subject
	if r.IntN(3) == 0 {
		if c.P["vmode"] == 2 {
			c.P["vmode"] = 0 // actively persisted values + failed commits: C01's recorded finding, kept out of here
		}
		f := sim.FaultSpec{Task: "subject", Op: 1 + r.IntN(45), Kind: pick(r, "eio", "eio", "enospc", "err")}
		if r.IntN(2) == 0 {
			// aim inside a lifecycle call: the k-th intercepted call after Commit / Rollback / a phase began
			f.After = pick(r, "rollback", "rollback", "commit", "p1", "p2")
			f.Op = 1 + r.IntN(25)
		}
		c.Faults = []sim.FaultSpec{f}
	}
	return c
}

func runC14(c *progCase) ([]Violation, *progStats) {
	st := &progStats{Probes: map[string]int{}}
	e, err := progEnv(c)
	if err != nil {
		st.InfraErr = err.Error()
		return nil, st
	}
	defer e.Close()
	st.S = e.S
	sp := StoreSpec{Name: "lc", Slot: c.P["slot"], Unique: true, ValueMode: c.P["vmode"]}
	sp2 := StoreSpec{Name: "lc2", Slot: 4, Unique: true}
	base := map[int]string{1: "a", 2: "b", 3: "c", 4: "d", 5: "e"}
	setupErr := ""
	e.runTasks([]string{"setup"}, []func(*sim.Task){func(t *sim.Task) {
		ctx := context.Background()
		tr, err := infs.NewTransaction(ctx, e.txOptions("w", 0))
		if err != nil {
			setupErr = err.Error()
			return
		}
		tr.Begin(ctx)
		b, err := infs.NewBtree[int, string](ctx, storeOptions(sp), tr, nil)
		if err != nil {
			setupErr = err.Error()
			return
		}
		for k := 1; k <= 5; k++ { // fixed order (ranging over the map would make the run differ from process to process)
			b.Add(ctx, k, base[k])
		}
		if err := tr.Commit(ctx); err != nil {
			setupErr = err.Error()
		}
	}})
	if setupErr != "" {
		st.InfraErr = "C14 setup: " + setupErr
		return nil, st
	}
	mode := c.Kind
	tag := "/mode-" + mode
	if len(c.Faults) > 0 {
		tag += "/fault"
	}
	var vs []Violation
	var trace []string
	report := func(class, msg string) {
		vs = append(vs, Violation{Class: class + tag, Msg: msg + "\ncall trace: " + strings.Join(trace, "; ")})
	}
	state := "new" // new, begun, p1, ended
	outcome := ""  // committed, rolledback
	contents := map[int]string{}
	pending := map[int]string{}
	for k, v := range base {
		contents[k] = v
		pending[k] = v
	}
	newStoreCommitted, newStorePending := false, false
	unjudgedCreate, createdInNonWriter := false, false
	fuzzy := map[int]bool{}
	rollbackErrored := false // an injected failure made Rollback itself fail: what it left behind is not judged (as in C01)
	apply := func() {
		contents = map[int]string{}
		for k, v := range pending {
			contents[k] = v
		}
		if newStorePending {
			newStoreCommitted = true
		}
	}
	panics := e.runTasks([]string{"subject"}, []func(*sim.Task){func(t *sim.Task) {
		ctx := context.Background()
		tr, err := infs.NewTransaction(ctx, e.txOptions(mode, 60))
		if err != nil {
			st.InfraErr = "NewTransaction: " + err.Error()
			return
		}
		var b b3
		seq := 0
		for _, s := range c.Steps {
			seq++
			val := fmt.Sprintf("v%d", seq)
			switch s.K {
			case "begin":
				err := tr.Begin(ctx)
				trace = append(trace, fmt.Sprintf("Begin=%v", err))
				if err != nil && state == "new" {
					// only an injected failure makes a first Begin fail: the client gives the transaction up
					return
				}
				if err == nil {
					switch state {
					case "new":
						state = "begun"
					case "ended":
						report("finished-transaction-began-again/"+outcome, "Begin returned nil on a transaction that had already ended ("+outcome+")")
					}
				}
			case "commit":
				e.S.Mark("commit")
				err := tr.Commit(ctx)
				trace = append(trace, fmt.Sprintf("Commit=%v", err))
				if err != nil && (strings.Contains(err.Error(), "rollback errored") || strings.Contains(err.Error(), "rollback failed") || strings.Contains(err.Error(), "rollback error")) {
					rollbackErrored = true // the injected failure hit the undo of the failed commit
				}
				switch state {
				case "begun", "p1":
					if err == nil {
						if mode == "w" {
							apply()
						}
						state, outcome = "ended", "committed"
					} else {
						state, outcome = "ended", "rolledback"
					}
				case "ended":
					if err == nil && outcome != "committed" {
						report("commit-succeeded-on-finished-transaction/"+outcome, "Commit returned nil on a transaction that had ended as "+outcome)
					}
				case "new":
					if err == nil {
						report("commit-succeeded-before-begin", "Commit returned nil on a transaction that was never begun")
					}
				}
			case "rollback":
				e.S.Mark("rollback")
				err := tr.Rollback(ctx)
				trace = append(trace, fmt.Sprintf("Rollback=%v", err))
				if err != nil && (state == "begun" || state == "p1") {
					rollbackErrored = true
				}
				switch state {
				case "begun", "p1":
					state, outcome = "ended", "rolledback"
				case "ended":
					if err == nil && outcome == "committed" {
						report("rollback-of-committed-transaction-accepted", "Rollback returned nil on a committed transaction")
					}
				}
			case "p1":
				e.S.Mark("p1")
				err := tr.GetPhasedTransaction().Phase1Commit(ctx)
				trace = append(trace, fmt.Sprintf("Phase1Commit=%v", err))
				if err != nil && (strings.Contains(err.Error(), "rollback errored") || strings.Contains(err.Error(), "rollback failed") || strings.Contains(err.Error(), "rollback error")) {
					rollbackErrored = true // the injected failure hit the undo of the failed commit
				}
				switch state {
				case "begun":
					if err == nil {
						state = "p1"
					} else {
						state, outcome = "ended", "rolledback"
					}
				case "ended":
					if err == nil && outcome != "committed" {
						report("phase1-succeeded-on-finished-transaction/"+outcome, "Phase1Commit returned nil on a transaction that had ended as "+outcome)
					}
				case "new":
					if err == nil {
						report("phase1-succeeded-before-begin", "Phase1Commit returned nil on a transaction that was never begun")
					}
				}
			case "p2":
				e.S.Mark("p2")
				err := tr.GetPhasedTransaction().Phase2Commit(ctx)
				trace = append(trace, fmt.Sprintf("Phase2Commit=%v", err))
				if err != nil && (strings.Contains(err.Error(), "rollback errored") || strings.Contains(err.Error(), "rollback failed") || strings.Contains(err.Error(), "rollback error")) {
					rollbackErrored = true // the injected failure hit the undo of the failed commit
				}
				switch state {
				case "p1":
					if err == nil {
						if mode == "w" {
							apply()
						}
						state, outcome = "ended", "committed"
					} else {
						state, outcome = "ended", "rolledback"
					}
				case "begun":
					if err == nil {
						report("phase2-accepted-before-phase1", "Phase2Commit returned nil although Phase1Commit had not run")
						state, outcome = "ended", "committed"
					}
				case "ended":
					if err == nil && outcome != "committed" {
						report("phase2-succeeded-on-finished-transaction/"+outcome, "Phase2Commit returned nil on a transaction that had ended as "+outcome)
					}
				case "new":
					if err == nil {
						report("phase2-succeeded-before-begin", "Phase2Commit returned nil on a transaction that was never begun")
					}
				}
			case "close":
				err := tr.Close()
				trace = append(trace, fmt.Sprintf("Close=%v", err))
			case "open":
				nb, err := infs.OpenBtree[int, string](ctx, sp.Name, tr, nil)
				trace = append(trace, fmt.Sprintf("OpenBtree=%v", err))
				if err == nil {
					b = nb
					if state != "begun" && state != "p1" {
						report("store-opened-outside-transaction/"+state+outcome, "OpenBtree succeeded in lifecycle state "+state+" "+outcome)
					}
				} else if state == "begun" {
					// a failed open ends the transaction (the wrapper rolls it back)
					if !tr.HasBegun() {
						state, outcome = "ended", "rolledback"
					}
				}
			case "new":
				_, err := infs.NewBtree[int, string](ctx, storeOptions(sp2), tr, nil)
				trace = append(trace, fmt.Sprintf("NewBtree(lc2)=%v", err))
				if err == nil {
					if state == "p1" {
						unjudgedCreate = true
					} else if state != "begun" {
						report("store-created-outside-transaction/"+state+outcome, "NewBtree succeeded in lifecycle state "+state+" "+outcome)
					} else if mode == "w" {
						newStorePending = true
					} else {
						createdInNonWriter = true
					}
				} else if state == "begun" && !tr.HasBegun() {
					state, outcome = "ended", "rolledback"
				}
			default:
				if b == nil {
					trace = append(trace, s.K+"(no handle)")
					continue
				}
				var ok bool
				var err error
				write := true
				switch s.K {
				case "add":
					ok, err = b.Add(ctx, s.Key, val)
				case "upd":
					ok, err = b.Update(ctx, s.Key, val)
				case "upsert":
					ok, err = b.Upsert(ctx, s.Key, val)
				case "rm":
					ok, err = b.Remove(ctx, s.Key)
				case "get":
					write = false
					ok, err = b.Find(ctx, s.Key, false)
					if ok && err == nil {
						_, err = b.GetCurrentValue(ctx)
					}
				case "find":
					write = false
					ok, err = b.Find(ctx, s.Key, false)
				}
				trace = append(trace, fmt.Sprintf("%s(%d)=%v,%v", s.K, s.Key, ok, err))
				if state == "p1" {
					// between the phases: not judged; whether such a write is part of the commit is left open
					if write && err == nil && ok {
						fuzzy[s.Key] = true
					}
					if err != nil && strings.Contains(err.Error(), "rollback failed") {
						rollbackErrored = true
					}
					if err != nil && !tr.HasBegun() {
						state, outcome = "ended", "rolledback"
					}
					continue
				}
				if state != "begun" {
					if err == nil {
						report("operation-accepted-outside-transaction/"+state+outcome+"/"+map[bool]string{true: "write", false: "read"}[write], fmt.Sprintf("%s(%d) returned (%v, nil) in lifecycle state %s %s", s.K, s.Key, ok, state, outcome))
					}
					continue
				}
				if err != nil {
					// the wrapper rolls the transaction back on an operation error
					if strings.Contains(err.Error(), "rollback failed") {
						rollbackErrored = true
					}
					if !tr.HasBegun() {
						state, outcome = "ended", "rolledback"
					}
					continue
				}
				if write && mode != "w" {
					report("write-accepted-in-non-writer", fmt.Sprintf("%s(%d) returned (%v, nil) in a %s-mode transaction", s.K, s.Key, ok, mode))
					continue
				}
				if write && ok {
					switch s.K {
					case "add", "upd", "upsert":
						pending[s.Key] = val
					case "rm":
						delete(pending, s.Key)
					}
				}
			}
		}
	}})
	if st.InfraErr != "" {
		return nil, st
	}
	if panics[0] != "" {
		report(panicClass(panics[0]), panics[0])
		return vs, finishProg(e, st, c)
	}
	// cold read of what is stored now
	e.W.Restart()
	got := map[int]string{}
	obsErr := ""
	var stores []string
	e.runTasks([]string{"observe"}, []func(*sim.Task){func(t *sim.Task) {
		ctx := context.Background()
		tr, err := infs.NewTransaction(ctx, e.txOptions("r", 0))
		if err != nil {
			obsErr = err.Error()
			return
		}
		tr.Begin(ctx)
		defer tr.Rollback(ctx)
		stores, _ = tr.GetStores(ctx)
		b, err := infs.OpenBtree[int, string](ctx, sp.Name, tr, nil)
		if err != nil {
			obsErr = err.Error()
			return
		}
		ok, err := b.First(ctx)
		for i := 0; ok && err == nil && i < 100; i++ {
			v, verr := b.GetCurrentValue(ctx)
			if verr != nil {
				obsErr = verr.Error()
				return
			}
			got[b.GetCurrentKey().Key] = v
			ok, err = b.Next(ctx)
		}
		if err != nil {
			obsErr = err.Error()
		}
	}})
	sort.Strings(stores)
	hasNew := containsStr(stores, sp2.Name)
	if rollbackErrored {
		st.Probes["rollback_failed_on_fault"]++
		return dedupe(vs), finishProg(e, st, c)
	}
	if len(fuzzy) > 0 {
		// a write was accepted between the two phases: what the commit then persists is not judged
		st.Probes["writes_between_phases"]++
	} else if obsErr != "" {
		report("store-unreadable-afterwards/"+state+outcome, "cold read failed: "+obsErr)
	} else if !sameExcept(got, contents, fuzzy) {
		what := "contents-changed-without-commit"
		if outcome == "committed" && mode == "w" {
			what = "committed-contents-wrong"
		}
		report(what+"/"+state+outcome, fmt.Sprintf("stored contents %v, expected %v (base %v)", got, contents, base))
	}
	switch {
	case unjudgedCreate || state == "begun" || state == "p1":
		// created between the phases, or the transaction never ended: not judged
	case hasNew && createdInNonWriter:
		report("store-created-by-non-writer/"+state+outcome, fmt.Sprintf("store list %v: a %s-mode transaction created store %s", stores, mode, sp2.Name))
	case hasNew != newStoreCommitted:
		report(fmt.Sprintf("store-list-wrong/new-store-%v/%s%s", hasNew, state, outcome), fmt.Sprintf("store list %v; a store created by the transaction must exist iff it committed (%v)", stores, newStoreCommitted))
	}
	st.Probes["ended_"+outcome]++
	return dedupe(vs), finishProg(e, st, c)
}

var _ = sop.ForWriting

func init() {
	pc := &progCheck{id: "C14", perUnit: 25, gen: genC14, run: runC14}
	Register(pc.def("exploration",
		"each evaluation = one transaction in mode writer / reader / no-check driven through a seeded sequence of 3-15 calls drawn from Begin, Commit, Rollback, Phase1Commit, Phase2Commit, Close, OpenBtree, NewBtree, Add, Update, Upsert, Remove, Find, Get (70% start with Begin+OpenBtree so that the misuse happens on a live transaction; a third of the programs get one injected I/O or cache failure at a PRNG-chosen call, e.g. inside Rollback or Commit), against a lifecycle state machine: no store operation may return success before Begin or after the end; a write may not be accepted by a non-writer; Phase2 needs Phase1; Rollback of a committed transaction, Begin/Commit/Phase1/Phase2 reporting success on a transaction that ended otherwise are violations; a cold process then reads the store and the store list, which must equal the model (changes only from a writer that committed). distinct_nontrivial = distinct call sequences",
		func(tier string) int {
			if tier == "thorough" {
				return 1600
			}
			return 160
		},
		[]string{"btree transaction wrapper guards, common.Transaction lifecycle (Begin/Phase1Commit/Phase2Commit/Rollback/Close), sop.SinglePhaseTransaction, store repository, commit path on the simulated disk"},
		[]string{"disk through the simulated file layer", "single client task (no schedule dimension: the property quantifies over call sequences)"},
		[]string{"operations issued between Phase1Commit and Phase2Commit are not judged", "sampling of the call-sequence space, not enumeration"}))
}

func sameExcept(a, b map[int]string, skip map[int]bool) bool {
	for k, v := range a {
		if !skip[k] {
			if w, ok := b[k]; !ok || w != v {
				return false
			}
		}
	}
	for k := range b {
		if !skip[k] {
			if _, ok := a[k]; !ok {
				return false
			}
		}
	}
	return true
}
