package checks

import (
	"fmt"
	"math/rand/v2"
	"strings"

	"verif/harness/sim"
)

// C20: caches never serve stale data. Rounds of {one writer + concurrent readers} followed by
// readers that begin after the writer's Commit returned: those must read the committed state.

var cacheLossRates = []sim.Rates{
	{Prefix: "l2.Get", Kind: "lost", P: 0.03},
	{Prefix: "l2.Get", Kind: "miss", P: 0.03},
}

func genC20(r *rand.Rand, tier string) *Case {
	c := &Case{Seed: r.Uint64(), HashMod: pick(r, 1, 4, 250), L1Max: pick(r, 0, 1, 2, 8), Shard: pick(r, 0, 0, 1, 2, 4)}
	schedPolicy(r, c)
	c.Stores = []StoreSpec{{Name: "st0", Slot: pick(r, 2, 4, 8), Unique: true, ValueMode: pick(r, 0, 0, 1, 3), CacheMode: r.IntN(3)}}
	keyspace := pick(r, 3, 6, 12)
	m := Model{}
	setup := setupTxn(r, c, m, keyspace, keyspace)
	c.Phases = append(c.Phases, Phase{Kind: "group", Txns: []Txn{setup}})
	if r.IntN(2) == 0 {
		c.Phases = append(c.Phases, Phase{Kind: "restart"})
	}
	rounds := 1 + r.IntN(3)
	for rd := 0; rd < rounds; rd++ {
		w := Txn{Name: fmt.Sprintf("w%d", rd), Mode: "w", End: "commit", MaxTime: 120}
		n := 1 + r.IntN(3)
		for i := 0; i < n; i++ {
			k := pick(r, "update", "update", "updcur", "upsert", "remove", "add")
			key := 1 + r.IntN(keyspace)
			if k == "add" {
				key = keyspace + 1 + r.IntN(4)
			}
			op := Op{K: k, S: 0, Key: key}
			if k != "remove" {
				op.Val = fmt.Sprintf("%s.%d", w.Name, i)
			}
			w.Ops = append(w.Ops, op)
		}
		txs := []Txn{w}
		nc := r.IntN(3)
		for j := 0; j < nc; j++ {
			rdr := Txn{Name: fmt.Sprintf("c%d_%d", rd, j), Mode: pick(r, "r", "r", "w", "n"), End: "commit", MaxTime: 120}
			for i := 0; i < 1+r.IntN(3); i++ {
				rdr.Ops = append(rdr.Ops, Op{K: pick(r, "get", "get", "scan", "count"), S: 0, Key: 1 + r.IntN(keyspace)})
			}
			txs = append(txs, rdr)
		}
		c.Phases = append(c.Phases, Phase{Kind: "group", Txns: txs})
		if r.IntN(4) == 0 {
			c.Phases = append(c.Phases, Phase{Kind: "advance", Seconds: pick(r, 30, 400, 1000)})
		}
		// readers that begin after the commit returned
		var after []Txn
		for j := 0; j < 1+r.IntN(2); j++ {
			rdr := Txn{Name: fmt.Sprintf("a%d_%d", rd, j), Mode: pick(r, "r", "w", "n"), End: "commit", MaxTime: 120}
			for i := 0; i < 1+r.IntN(4); i++ {
				rdr.Ops = append(rdr.Ops, Op{K: pick(r, "get", "get", "get", "scan", "count"), S: 0, Key: 1 + r.IntN(keyspace+2)})
			}
			after = append(after, rdr)
		}
		c.Phases = append(c.Phases, Phase{Kind: "group", Txns: after})
	}
	if r.IntN(2) == 0 {
		c.Rates = cacheLossRates
		c.MaxRand = 1 + r.IntN(4)
	}
	c.Phases = append(c.Phases, Phase{Kind: "observe", Label: "warm"})
	return c
}

func oracleC20(c *Case, res *Result) []Violation {
	var vs []Violation
	m := Model{}
	tag := ""
	nconc := 0
	cold := false
	for _, ph := range c.Phases {
		if ph.Kind == "restart" {
			cold = true
		}
	}
	for _, f := range res.Sim.Fired {
		if f.Kind == "lost" || f.Kind == "miss" {
			cold = true // an injected cache loss puts that reader where a cold cache would: it refills from disk
		}
	}
	for pi, ph := range c.Phases {
		if ph.Kind != "group" {
			continue
		}
		first := ph.Txns[0].Name
		switch {
		case first == "setup":
			tr := findResult(res, "setup", pi)
			if tr == nil || tr.Outcome != "committed" {
				return []Violation{{Class: "setup-failed", Msg: "setup did not commit"}}
			}
			m.ApplyTxn(c, &ph.Txns[0])
		case strings.HasPrefix(first, "w"):
			tr := findResult(res, first, pi)
			if tr == nil {
				continue
			}
			if n := len(ph.Txns) - 1; n > nconc {
				nconc = n // the most readers that ran beside a writer so far (a cache entry gone stale in an earlier round stays)
			}
			tag = fmt.Sprintf("/concurrent-readers%d", nconc)
			if cold {
				tag += "/coldcache"
			}
			if c.L1Max == 1 || c.Shard == 1 {
				tag += "/capacity1" // L1 MRU or in-memory L2 shard limited to a single entry
			} else if c.L1Max > 0 || c.Shard > 0 {
				tag += "/smallcache" // L1 capacity 2..8 and/or L2 shard capacity 2..4: entries get evicted mid-transaction
			}
			expiry := 900
			for _, sp := range c.Stores {
				if sp.CacheMode == 1 {
					expiry = 60 // this store caches for one minute
				}
			}
			for _, p2 := range c.Phases[:pi] {
				if p2.Kind == "advance" && p2.Seconds >= expiry {
					tag += "/after-expiry" // the clock went past the cache durations before this round
					break
				}
			}
			if tr.Outcome == "panic" {
				return append(vs, Violation{Class: panicClass(tr.Panic) + tag, Msg: tr.Panic})
			}
			if tr.Outcome == "committed" {
				if skip := m.ApplyTxnObserved(c, &ph.Txns[0], tr); len(skip) > 0 {
					return dedupe(vs) // the writer's own calls disagreed with the model: C17's business
				}
			}
			for _, t := range ph.Txns[1:] {
				if r := findResult(res, t.Name, pi); r != nil && r.Outcome == "panic" {
					vs = append(vs, Violation{Class: panicClass(r.Panic) + tag, Msg: t.Name + ": " + r.Panic})
				}
			}
		case strings.HasPrefix(first, "a"):
			for ti := range ph.Txns {
				tx := &ph.Txns[ti]
				tr := findResult(res, tx.Name, pi)
				if tr == nil {
					continue
				}
				if tr.Outcome == "panic" {
					vs = append(vs, Violation{Class: panicClass(tr.Panic) + tag, Msg: tx.Name + ": " + tr.Panic})
					continue
				}
				mode := "/mode-" + tx.Mode
				for i, op := range tx.Ops {
					if i >= len(tr.Ops) {
						break
					}
					g := tr.Ops[i]
					if g.Err != "" {
						vs = append(vs, Violation{Class: "read-error" + mode + tag, Msg: fmt.Sprintf("%s (began after the last commit returned) %s(%d) failed: %s", tx.Name, op.K, op.Key, g.Err)})
						break
					}
					ok, val, items, count, _ := m.clone().ModelOp("st0", true, op)
					switch op.K {
					case "get":
						if g.OK != ok || (ok && g.Val != val) {
							vs = append(vs, Violation{Class: "stale-get" + mode + tag,
								Msg: fmt.Sprintf("%s (mode %s) began after every earlier Commit had returned, Get(%d) returned (%v,%q); latest committed state has (%v,%q); cache faults: %s", tx.Name, tx.Mode, op.Key, g.OK, g.Val, ok, val, firedSummary(res))})
						}
					case "scan":
						if !sameScan(g.Items, items, op.N) {
							vs = append(vs, Violation{Class: "stale-scan" + mode + tag,
								Msg: fmt.Sprintf("%s (mode %s) scan returned [%s]; latest committed state is [%s]; cache faults: %s", tx.Name, tx.Mode, kvString(g.Items), kvString(items), firedSummary(res))})
						}
					case "count":
						if g.Count != count {
							vs = append(vs, Violation{Class: "stale-count" + mode + tag,
								Msg: fmt.Sprintf("%s (mode %s) Count()=%d; latest committed state has %d items; cache faults: %s", tx.Name, tx.Mode, g.Count, count, firedSummary(res))})
						}
					}
				}
			}
		}
	}
	return dedupe(vs)
}

func init() {
	cc := &caseCheck{id: "C20", gen: genC20, oracle: oracleC20, nontrivial: nontrivialHist, perUnit: func(string) int { return 20 }}
	Register(cc.def("exploration",
		"1-3 rounds of {one writer transaction (Update/UpdateCurrentValue/Upsert/Remove/Add) running concurrently with 0-2 readers (ForReading / ForWriting / NoCheck) under a seeded schedule} each followed by readers that begin only after the writer's Commit returned; L1 capacity 1..64, in-memory L2 shard capacity 1..1000 (forced evictions), cache durations default/minimum/long+TTL, simulated clock advances across cache expiries, injected lost/missing L2 entries at PRNG-chosen reads, optional process restart (cold caches). Oracle: every Get, scan and Count of an after-reader must equal the latest committed state (model). distinct_nontrivial = distinct (program, fired cache faults, schedule)",
		func(tier string) int {
			if tier == "thorough" {
				return 1600
			}
			return 96
		}))
}
