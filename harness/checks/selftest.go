package checks

import (
	"bufio"
	"encoding/json"
	"fmt"
	"os"
	"os/exec"
	"strconv"
	"strings"
)

// selftestMain proves determinism of the harness: the same units are executed in separate
// processes at GOMAXPROCS 1, 4 and 16, once in one batch and once split over 5 processes;
// the per-run event-log hashes must be identical. Divergence is exit 2, never a verdict.
func selftestMain(args []string) int {
	ids := []string{}
	n := 32
	for _, a := range args {
		if v, err := strconv.Atoi(a); err == nil {
			n = v
		} else {
			ids = append(ids, a)
		}
	}
	if len(ids) == 0 {
		for id := range registry {
			ids = append(ids, id)
		}
	}
	exe, _ := os.Executable()
	bad := 0
	for _, id := range ids {
		c := registry[id]
		if c == nil {
			fmt.Println("unknown", id)
			return 2
		}
		total := c.Units("quick")
		if n < total {
			total = n
		}
		collect := func(gmp string, parts int) map[int]string {
			out := map[int]string{}
			for k := 0; k < parts; k++ {
				cmd := exec.Command(exe, "worker", id, "selftest:"+strconv.Itoa(total), "7", strconv.Itoa(k), strconv.Itoa(parts), "0")
				cmd.Env = append(os.Environ(), "GOMAXPROCS="+gmp)
				cmd.Stderr = os.Stderr
				p, _ := cmd.StdoutPipe()
				cmd.Start()
				sc := bufio.NewScanner(p)
				sc.Buffer(make([]byte, 1<<20), 1<<28)
				for sc.Scan() {
					var r UnitReport
					if json.Unmarshal(sc.Bytes(), &r) == nil {
						out[r.Index] = strings.Join(r.Hashes, ",") + "|" + r.Infra
					}
				}
				cmd.Wait()
			}
			return out
		}
		a := collect("1", 1)
		b := collect("4", 5)
		d := collect("16", 2)
		diff := 0
		for i := 0; i < total; i++ {
			if a[i] == "" || a[i] != b[i] || a[i] != d[i] {
				diff++
				if diff <= 3 {
					fmt.Printf("selftest %s unit %d differs:\n  gmp1/1proc : %s\n  gmp4/5procs: %s\n  gmp16/2proc: %s\n", id, i, a[i], b[i], d[i])
				}
			}
		}
		fmt.Printf("selftest %s: %d units x 3 processes configurations, %d divergent\n", id, total, diff)
		bad += diff
	}
	if bad > 0 {
		fmt.Println("HARNESS NONDETERMINISTIC")
		return 2
	}
	return 0
}
