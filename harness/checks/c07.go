package checks

import (
	"encoding/json"
	"fmt"
	"math/rand/v2"
	"strings"

	"verif/harness/sim"
)

// C07: a commit that fails on an I/O, lock or cache error leaves no trace and no blockage.
// fault_enumeration: for a sampled program a profiling run lists every intercepted call the
// subject makes; then every position is failed once with every applicable error kind.

func faultKindsFor(kind string) []sim.FaultSpec {
	switch {
	case kind == "fio.WriteFile":
		// the last one: the file stays unwritable for the rest of the transaction (its fallback and
		// undo writes to the same path fail as well)
		return []sim.FaultSpec{{Kind: "eio"}, {Kind: "enospc"}, {Kind: "short", Arg: 7}, {Kind: "eio", Times: 4, Path: true}}
	case kind == "fio.ReadFile", kind == "fio.ReadDir", kind == "fio.Stat":
		return []sim.FaultSpec{{Kind: "eio"}}
	case kind == "fio.Remove", kind == "fio.RemoveAll":
		return []sim.FaultSpec{{Kind: "eio"}}
	case kind == "fio.MkdirAll":
		return []sim.FaultSpec{{Kind: "enospc"}}
	case kind == "dio.Open", kind == "dio.Create":
		return []sim.FaultSpec{{Kind: "eacces"}}
	case kind == "dio.ReadAt":
		return []sim.FaultSpec{{Kind: "eio"}}
	case kind == "dio.WriteAt":
		return []sim.FaultSpec{{Kind: "eio"}, {Kind: "short", Arg: 512}}
	case kind == "os.Create":
		return []sim.FaultSpec{{Kind: "enospc"}}
	case kind == "os.Open", kind == "os.Remove":
		return []sim.FaultSpec{{Kind: "eio"}}
	case kind == "tlog.Add":
		return []sim.FaultSpec{{Kind: "eio"}}
	case strings.HasPrefix(kind, "l2.Get"):
		return []sim.FaultSpec{{Kind: "err"}, {Kind: "lost"}}
	case kind == "l2.IsRestarted", kind == "l2.Ping", kind == "l2.Clear":
		return nil
	case strings.HasPrefix(kind, "l2."):
		return []sim.FaultSpec{{Kind: "err"}}
	}
	return nil
}

// genC07Program builds setup + prefix + subject + observers + fault-free retry + observer.
func genC07Program(r *rand.Rand) *Case {
	c := &Case{Seed: r.Uint64(), Policy: "seq", HashMod: pick(r, 1, 4, 250)}
	shape := r.IntN(6)
	ns := 1
	if shape == 5 || r.IntN(4) == 0 {
		ns = 2
	}
	for i := 0; i < ns; i++ {
		sp := StoreSpec{Name: fmt.Sprintf("st%d", i), Slot: pick(r, 2, 4, 8), Unique: true, ValueMode: pick(r, 0, 0, 1, 3), CacheMode: r.IntN(3)}
		if shape == 4 {
			sp.ValueMode = pick(r, 1, 2, 3)
		}
		c.Stores = append(c.Stores, sp)
	}
	keyspace := 20
	m := Model{}
	late := shape == 0 // new store created by the subject
	setup := Txn{Name: "setup", Mode: "w", End: "commit"}
	for i, sp := range c.Stores {
		if late && i == len(c.Stores)-1 {
			continue
		}
		setup.Create = append(setup.Create, i)
		m[sp.Name] = []KV{}
		n := 3 + r.IntN(6)
		if shape == 1 { // new root: store stays empty
			n = 0
		}
		for j := 0; j < n; j++ {
			op := Op{K: "add", S: i, Key: 1 + r.IntN(keyspace), Val: fmt.Sprintf("seed%d.%d", i, j)}
			if ok, _, _, _, _ := m.clone().ModelOp(sp.Name, true, op); ok {
				setup.Ops = append(setup.Ops, op)
				m.ModelOp(sp.Name, true, op)
			}
		}
	}
	c.Phases = append(c.Phases, Phase{Kind: "group", Txns: []Txn{setup}})
	if r.IntN(2) == 0 {
		c.Phases = append(c.Phases, Phase{Kind: "restart"})
	}
	sub := Txn{Name: "subject", Mode: "w", End: "commit", MaxTime: 60}
	var touch []int
	for i := range c.Stores {
		touch = append(touch, i)
		if late && i == len(c.Stores)-1 {
			sub.Create = append(sub.Create, i)
		}
	}
	mm := m.clone()
	for _, i := range sub.Create {
		mm[c.Stores[i].Name] = []KV{}
	}
	kinds := writeKinds
	nops := 2 + r.IntN(5)
	switch shape {
	case 2: // splits: many adds
		kinds = []string{"add", "add", "add", "upsert"}
		nops = 6 + r.IntN(8)
	case 3: // updates and removes only
		kinds = []string{"update", "update", "remove", "remove", "get"}
	}
	sub.Ops = genOps(r, c, mm, touch, nops, keyspace, "sub", kinds)
	c.Phases = append(c.Phases, Phase{Kind: "group", Txns: []Txn{sub}})
	c.FaultPhase = 2
	c.Phases = append(c.Phases, Phase{Kind: "observe", Label: "after-warm"}, Phase{Kind: "observe_cold", Label: "after-cold"})
	retry := sub
	retry.Name = "retry"
	retry.MaxTime = 120
	c.Phases = append(c.Phases, Phase{Kind: "group", Txns: []Txn{retry}}, Phase{Kind: "observe_cold", Label: "after-retry"})
	return c
}

func subjectPhase(c *Case) int {
	for i, ph := range c.Phases {
		if ph.Kind == "group" && len(ph.Txns) == 1 && ph.Txns[0].Name == "subject" {
			return i
		}
	}
	return -1
}

func oracleC07(c *Case, res *Result) []Violation {
	var vs []Violation
	sp := subjectPhase(c)
	m := Model{}
	for pi, ph := range c.Phases {
		if ph.Kind != "group" || pi >= sp {
			continue
		}
		for ti := range ph.Txns {
			tr := findResult(res, ph.Txns[ti].Name, pi)
			if tr == nil || tr.Outcome != "committed" {
				return []Violation{{Class: "setup-failed", Msg: "fault-free setup did not commit"}}
			}
			m.ApplyTxn(c, &ph.Txns[ti])
		}
	}
	sub := &c.Phases[sp].Txns[0]
	sr := findResult(res, "subject", sp)
	if sr == nil {
		return nil
	}
	ap := apFlag(c, sub)
	fk, fop := "none", ""
	if len(res.Sim.Fired) > 0 {
		fk = res.Sim.Fired[0].Kind
		if res.Sim.Fired[0].Path {
			fk += "-path"
		}
		fop = res.Sim.Fired[0].Match
		if i := strings.IndexByte(fop, ' '); i > 0 {
			fop = fop[:i]
		}
	}
	tag := fmt.Sprintf("/ap%d/%s@%s", ap, fk, fop)
	for _, o := range sub.Ops {
		if len(m[c.Stores[o.S].Name]) == 0 {
			// the subject is the first to put anything into this store (the new root node is
			// registered as active during phase 1: see the C08/C09 emptystore findings)
			tag = "/emptystore" + tag
			break
		}
	}
	if sr.Outcome == "panic" {
		return []Violation{{Class: panicClass(sr.Panic) + tag, Msg: sr.Panic}}
	}
	s0 := m
	s1 := m.clone()
	skip := s1.ApplyTxnObserved(c, sub, sr)
	want, state := s0, "S0 (nothing)"
	if sr.Outcome == "committed" {
		want, state = s1, "S0+W (everything)"
	}
	for _, o := range res.Obs {
		if !strings.HasPrefix(o.Label, "after-warm") && !strings.HasPrefix(o.Label, "after-cold") {
			continue
		}
		for _, st := range c.Stores {
			if skip[st.Name] {
				continue
			}
			w, exists := want[st.Name]
			d := o.Stores[st.Name]
			if diff := compareDump(d, w, exists); diff != "" {
				kind := "mixture"
				other, oex := s1[st.Name], false
				_, oex = s1[st.Name]
				if sr.Outcome == "committed" {
					other = s0[st.Name]
					_, oex = s0[st.Name]
				}
				if compareDump(d, other, oex) == "" {
					kind = "error-but-applied"
					if sr.Outcome == "committed" {
						kind = "success-but-not-applied"
					}
				}
				if strings.HasPrefix(diff, "cannot open") || strings.HasPrefix(diff, "scan failed") {
					kind = "unreadable"
				}
				if strings.HasPrefix(diff, "store exists") {
					kind = "store-existence"
				}
				vs = append(vs, Violation{Class: fmt.Sprintf("%s/%s/%s", kind, sr.Outcome, strings.TrimPrefix(o.Label, "after-")) + tag,
					Msg: fmt.Sprintf("subject ended %s (err=%q); expected %s; observer %s store %s: %s; fault: %s",
						sr.Outcome, sr.CommitErr+sr.OpenErr, state, o.Label, st.Name, diff, firedSummary(res))})
			} else if exists && d.Count != int64(len(d.Items)) {
				vs = append(vs, Violation{Class: fmt.Sprintf("count-mismatch/%s/%s", sr.Outcome, strings.TrimPrefix(o.Label, "after-")) + tag,
					Msg: fmt.Sprintf("subject ended %s; observer %s store %s: Count()=%d, scan has %d items; fault: %s", sr.Outcome, o.Label, st.Name, d.Count, len(d.Items), firedSummary(res))})
			}
		}
	}
	// no blockage: the fault-free retry must commit, promptly
	if sr.Outcome != "committed" && len(vs) == 0 {
		rp := -1
		for i, ph := range c.Phases {
			if ph.Kind == "group" && len(ph.Txns) == 1 && ph.Txns[0].Name == "retry" {
				rp = i
			}
		}
		if rr := findResult(res, "retry", rp); rr != nil {
			dur := float64(rr.SimEnd-rr.SimStart) / 1e9
			switch {
			case rr.Outcome == "panic":
				vs = append(vs, Violation{Class: panicClass(rr.Panic) + "/retry" + tag, Msg: rr.Panic})
			case rr.Outcome != "committed":
				e := rr.CommitErr + rr.OpenErr + rr.BeginErr
				for _, o := range rr.Ops {
					e += o.Err
				}
				vs = append(vs, Violation{Class: "retry-blocked/" + errClass(e) + tag,
					Msg: fmt.Sprintf("after the failed commit (%s) a fault-free retry of the same program ended %s after %.1f simulated s: %s; fault: %s", sr.CommitErr, rr.Outcome, dur, e, firedSummary(res))})
			case dur > 60 || rr.ClockJumps > 0 && dur > 20:
				vs = append(vs, Violation{Class: "retry-waited-for-expiry" + tag,
					Msg: fmt.Sprintf("the fault-free retry committed only after %.1f simulated s (%d clock jumps): it waited for something to expire; fault: %s", dur, rr.ClockJumps, firedSummary(res))})
			default:
				// final state must be S0+W of the retry
				s2 := s0.clone()
				skip2 := s2.ApplyTxnObserved(c, &c.Phases[rp].Txns[0], rr)
				for _, o := range res.Obs {
					if o.Label != "after-retry" {
						continue
					}
					for _, st := range c.Stores {
						if skip2[st.Name] || skip[st.Name] {
							continue
						}
						w, exists := s2[st.Name]
						if diff := compareDump(o.Stores[st.Name], w, exists); diff != "" {
							vs = append(vs, Violation{Class: "retry-state" + tag,
								Msg: fmt.Sprintf("after failed commit + successful fault-free retry, store %s: %s; fault: %s", st.Name, diff, firedSummary(res))})
						}
					}
				}
			}
		}
	}
	return dedupe(vs)
}

type c07Payload struct {
	Case *Case `json:"case"`
}

func runC07(u *Unit) {
	r := u.Rng
	prog := genC07Program(r)
	prof := *prog
	prof.KeepLog = true
	pres := Execute(&prof)
	u.Rep.Evals++
	u.Rep.addStats(pres)
	if pres.InfraErr != "" || pres.Hang {
		u.Rep.Infra = "profile run failed: " + pres.InfraErr
		return
	}
	// the fault-free run must itself satisfy the oracle
	for _, v := range oracleC07(&prof, pres) {
		v.Payload = mustJSON(&prof)
		v.Hash = pres.Hash
		v.Class = "fault-free/" + v.Class
		u.Rep.Violations = append(u.Rep.Violations, v)
	}
	type pos struct {
		op   int
		kind string
	}
	var positions []pos
	for _, e := range pres.Sim.Log {
		if e.Task == "subject" && e.Op > 0 {
			positions = append(positions, pos{e.Op, e.Kind})
		}
	}
	quick := u.Tier != "thorough"
	total := 0
	for _, p := range positions {
		for _, f := range faultKindsFor(p.kind) {
			total++
			if quick && len(positions) > 150 && total%2 == 1 {
				continue // quick tier: every second (position,kind) pair of very long commits
			}
			cs := *prog
			f.Task, f.Op, f.Match = "subject", p.op, p.kind
			cs.Faults = []sim.FaultSpec{f}
			curCase = &cs
			res := Execute(&cs)
			u.Rep.Evals++
			u.Rep.addStats(res)
			u.Rep.Hashes = append(u.Rep.Hashes, res.Hash)
			if res.InfraErr != "" || res.Hang {
				u.Rep.Infra = fmt.Sprintf("run with fault %v: hang=%v %s", f, res.Hang, res.InfraErr)
				return
			}
			if len(res.Sim.Diverged) > 0 {
				u.Rep.Infra = "fault plan diverged (profile and fault run disagree): " + strings.Join(res.Sim.Diverged, "; ")
				return
			}
			if len(res.Sim.Fired) == 0 {
				continue
			}
			sr := findResult(res, "subject", subjectPhase(&cs))
			out := "?"
			if sr != nil {
				out = sr.Outcome
			}
			u.Rep.Sigs = append(u.Rep.Sigs, fmt.Sprintf("%x", fnv(fmt.Sprintf("%d|%d|%s|%s|%s", prog.Seed, p.op, p.kind, f.Kind, out))))
			for _, v := range oracleC07(&cs, res) {
				v.Payload = mustJSON(&cs)
				v.Hash = res.Hash
				u.Rep.Violations = append(u.Rep.Violations, v)
			}
		}
	}
	u.Rep.Exhaustive = !quick || len(positions) <= 150
	if u.Index < 3 {
		var ops []string
		for i, p := range positions {
			if i < 40 {
				ops = append(ops, fmt.Sprintf("%d:%s", p.op, p.kind))
			}
		}
		u.Rep.Samples = append(u.Rep.Samples, map[string]any{"program": defaultSample(prog, pres), "subject_calls": len(positions), "fault_runs": total, "first_calls": ops})
	}
}

func replayC07(payload json.RawMessage) []Violation {
	var c Case
	if err := json.Unmarshal(payload, &c); err != nil {
		return []Violation{{Class: "bad-replay-file", Msg: err.Error()}}
	}
	res := Execute(&c)
	if res.InfraErr != "" || res.Hang {
		return []Violation{{Class: "replay-infra", Msg: res.InfraErr}}
	}
	vs := oracleC07(&c, res)
	for i := range vs {
		vs[i].Hash = res.Hash
		if len(c.Faults) == 0 {
			vs[i].Class = "fault-free/" + vs[i].Class
		}
	}
	return vs
}

func init() {
	Register(&CheckDef{ID: "C07", Level: "fault_enumeration",
		Rule:    "each unit = one sampled program (shapes: new store, new root in an empty store, node splits, updates+removes, separate-segment/actively persisted/globally cached values, two stores); a profiling run lists every intercepted call (L2 cache incl. locks, FileIO, DirectIO registry blocks, transaction log, priority log) the subject makes in its body, Commit and the rollback it triggers; then one run per (call position, applicable error kind: EIO, ENOSPC, EACCES, short write, cache error, lost cache entry) fails exactly that call. Judged: Commit result vs warm and cold dumps of all stores (never a mixture, error => S0, success => S0+W), Count, and a fault-free immediate retry that must commit within 60 simulated seconds. distinct_nontrivial = distinct (program, position, call kind, error kind, outcome) of runs whose fault fired",
		Exhaust: "per sampled program: every intercepted call position of the subject x every applicable error kind (single faults); quick tier halves the position space of commits with more than 150 calls",
		Units: func(tier string) int {
			if tier == "thorough" {
				return 192
			}
			return 16
		},
		Run: runC07, Replay: replayC07, Real: realComponents, Stub: stubComponents,
		Assume:    append([]string{"faults are injected above fs.retryIO: an injected error is one that persisted after sop's own retries", "pairs of faults (second fault inside the rollback) are not enumerated"}, commonAssumptions...),
		UnitLimit: 900e9})
}
