package checks

import (
	"fmt"
	"math/rand/v2"
	"sort"
	"strings"

	"verif/harness/sim"
)

// C15: commits end within their time budget and never deadlock; a transaction that gives up
// releases its locks so later transactions can proceed.

func genC15(r *rand.Rand, tier string) *Case {
	c := &Case{Seed: r.Uint64(), HashMod: pick(r, 1, 4, 250), KeepLog: true}
	schedPolicy(r, c)
	c.Stores = []StoreSpec{{Name: "st0", Slot: pick(r, 2, 4, 8), Unique: true, ValueMode: pick(r, 0, 0, 1)}}
	if r.IntN(3) == 0 {
		c.Stores = append(c.Stores, StoreSpec{Name: "st1", Slot: 4, Unique: true})
	}
	keyspace := pick(r, 4, 8)
	m := Model{}
	setup := setupTxn(r, c, m, keyspace, keyspace)
	c.Phases = append(c.Phases, Phase{Kind: "group", Txns: []Txn{setup}})
	if r.IntN(4) == 0 {
		return genC15GiveUpAfterRetry(r, c, m, keyspace)
	}
	nw := 2 + r.IntN(3)
	var txs []Txn
	keys := r.Perm(keyspace)
	for w := 0; w < nw; w++ {
		tx := Txn{Name: fmt.Sprintf("w%d", w), Mode: "w", End: "commit", MaxTime: pick(r, 2, 5, 20, 120)}
		if r.IntN(3) == 0 {
			tx.Deadline = pick(r, 1, 3, 10, 60, 300)
		}
		n := 2 + r.IntN(3)
		for i := 0; i < n; i++ {
			// opposite access orders: even writers walk the key list upwards, odd ones downwards
			idx := i
			if w%2 == 1 {
				idx = n - 1 - i
			}
			key := 1 + keys[idx%len(keys)]
			tx.Ops = append(tx.Ops, Op{K: pick(r, "update", "update", "upsert", "get", "remove"), S: r.IntN(len(c.Stores)), Key: key, Val: fmt.Sprintf("%s.%d", tx.Name, i)})
		}
		txs = append(txs, tx)
	}
	c.Phases = append(c.Phases, Phase{Kind: "group", Txns: txs})
	c.FaultPhase = 2
	// a lock holder stalls (seconds to 10 minutes) at a PRNG-chosen call of its commit
	if r.IntN(2) == 0 {
		v := r.IntN(nw)
		c.Faults = append(c.Faults, sim.FaultSpec{Task: txs[v].Name, Op: 20 + r.IntN(120), Kind: "stall", Arg: int64(pick(r, 1500, 8000, 45000, 600000))})
	}
	// follow-up transaction on the same keys, after everybody is done
	follow := Txn{Name: "follow", Mode: "w", End: "commit", MaxTime: 60}
	for i := 0; i < 2+r.IntN(3); i++ {
		follow.Ops = append(follow.Ops, Op{K: pick(r, "update", "upsert"), S: 0, Key: 1 + keys[i%len(keys)], Val: fmt.Sprintf("follow.%d", i)})
	}
	c.Phases = append(c.Phases, Phase{Kind: "group", Txns: []Txn{follow}})
	c.Phases = append(c.Phases, Phase{Kind: "observe", Label: "final"})
	return c
}

// genC15GiveUpAfterRetry: a writer whose first attempt fails softly (another writer committed the
// node meanwhile), who then finds the node lock taken by a holder that stalls, and who gives up at
// a caller deadline much shorter than its maxTime (the TTL of whatever it leaves behind).
func genC15GiveUpAfterRetry(r *rand.Rand, c *Case, m Model, keyspace int) *Case {
	ks := r.Perm(keyspace)
	k := func(i int) int { return 1 + ks[i%len(ks)] }
	x := Txn{Name: "w0", Mode: "w", End: "commit", MaxTime: 20, Ops: []Op{{K: "update", S: 0, Key: k(0), Val: "w0.0"}}}
	a := Txn{Name: "w1", Mode: "w", End: "commit", MaxTime: 120, Deadline: pick(r, 1, 2, 3), CommitAfter: "w0",
		Ops: []Op{{K: "update", S: 0, Key: k(1), Val: "w1.0"}}}
	h := Txn{Name: "w2", Mode: "w", End: "commit", MaxTime: 20, CommitAfter: "w0",
		Ops: []Op{{K: "update", S: 0, Key: k(2), Val: "w2.0"}}}
	if r.IntN(2) == 0 {
		a.Ops = append(a.Ops, Op{K: "get", S: 0, Key: k(3)})
	}
	c.Phases = append(c.Phases, Phase{Kind: "group", Txns: []Txn{x, a, h}})
	c.FaultPhase = 2
	c.Faults = append(c.Faults, sim.FaultSpec{Task: "w2", Op: 8 + r.IntN(40), Kind: "stall", Arg: int64(pick(r, 8000, 45000))})
	follow := Txn{Name: "follow", Mode: "w", End: "commit", MaxTime: 60, Ops: []Op{{K: "update", S: 0, Key: k(1), Val: "follow.0"}, {K: "update", S: 0, Key: k(2), Val: "follow.1"}}}
	c.Phases = append(c.Phases, Phase{Kind: "group", Txns: []Txn{follow}})
	c.Phases = append(c.Phases, Phase{Kind: "observe", Label: "final"})
	return c
}

func oracleC15(c *Case, res *Result) []Violation {
	var vs []Violation
	stalled := map[string]int64{}
	for _, f := range res.Sim.Fired {
		if f.Kind == "stall" {
			stalled[f.Task] = f.Arg
		}
	}
	tag := ""
	if len(stalled) > 0 {
		// a holder stalled for longer than its maximum commit time outlives its own locks (they are
		// leases of maxTime); a shorter stall leaves every lock it holds valid
		tag = "/holder-stalled-within-lease"
		for _, ph := range c.Phases {
			for _, tx := range ph.Txns {
				if ms, ok := stalled[tx.Name]; ok && ms >= int64(tx.MaxTime)*1000 {
					tag = "/holder-stalled-past-lease"
				}
			}
		}
	}
	if res.Sim.StepCapHit {
		return []Violation{{Class: "livelock-step-cap" + tag, Msg: fmt.Sprintf("the scheduler hit its step cap (%d steps) with tasks still running: transactions spin without finishing", res.Steps)}}
	}
	gi := -1
	for pi, ph := range c.Phases {
		if ph.Kind == "group" && len(ph.Txns) > 1 {
			gi = pi
		}
	}
	if gi < 0 {
		return nil
	}
	for ti := range c.Phases[gi].Txns {
		tx := &c.Phases[gi].Txns[ti]
		tr := findResult(res, tx.Name, gi)
		if tr == nil {
			continue
		}
		if tr.Outcome == "panic" && tr.CommitSeq > 0 {
			// Commit must return; a panic inside a B-tree call of the body is C03/C05's subject
			vs = append(vs, Violation{Class: "commit-" + panicClass(tr.Panic) + tag, Msg: tx.Name + ": " + tr.Panic})
			continue
		}
		if tr.CommitSeq == 0 || stalled[tx.Name] > 0 {
			continue // never reached Commit, or was itself stalled by the simulator
		}
		budget := float64(tx.MaxTime)
		if tx.Deadline > 0 {
			// deadline counts from transaction start
			left := float64(tx.Deadline) - float64(tr.SimCommit-tr.SimStart)/1e9
			if left < budget {
				budget = left
			}
			if budget < 0 {
				budget = 0
			}
		}
		allowance := 0.25 * budget
		if allowance < 5 {
			allowance = 5
		}
		took := float64(tr.SimEnd-tr.SimCommit) / 1e9
		if took > budget+allowance {
			kind := "maxtime"
			if tx.Deadline > 0 {
				kind = "deadline"
			}
			// where did the commit spend its time: spinning on a registry sector lock?
			spins, storeSpins := 0, 0
			for _, e := range res.Sim.Log {
				if e.Task != tx.Name || e.Kind != "l2.DualLock" {
					continue
				}
				if strings.Contains(e.Target, ".reg") {
					spins++
				} else if strings.HasPrefix(e.Target, "lock:/") {
					storeSpins++
				}
			}
			if spins > 20 {
				kind += "/wait=sectorlock"
			} else if storeSpins > 4 {
				kind += "/wait=storelock"
			}
			vs = append(vs, Violation{Class: "commit-overran-budget/" + kind + tag,
				Msg: fmt.Sprintf("%s: Commit took %.1f simulated s; budget min(deadline, maxTime) = %.1f s (+%.1f s allowance); outcome %s (%s); stalls: %v", tx.Name, took, budget, allowance, tr.Outcome, tr.CommitErr, stalled)})
		}
	}
	// follow-up must commit within its own budget without waiting for an expiry
	for pi, ph := range c.Phases {
		if ph.Kind != "group" || len(ph.Txns) != 1 || ph.Txns[0].Name != "follow" {
			continue
		}
		tr := findResult(res, "follow", pi)
		if tr == nil {
			continue
		}
		if tr.Outcome == "panic" {
			vs = append(vs, Violation{Class: panicClass(tr.Panic) + "/follow" + tag, Msg: tr.Panic})
			continue
		}
		took := float64(tr.SimEnd-tr.SimStart) / 1e9
		if tr.Outcome != "committed" {
			e := tr.CommitErr + tr.OpenErr
			for _, o := range tr.Ops {
				e += o.Err
			}
			// what did the transactions that gave up fail with
			var after []string
			for ti := range c.Phases[gi].Txns {
				if r2 := findResult(res, c.Phases[gi].Txns[ti].Name, gi); r2 != nil && r2.Outcome != "committed" {
					after = append(after, errClass(strings.TrimPrefix(r2.CommitErr, "phase 1 commit failed, details: ")))
				}
			}
			sort.Strings(after)
			tag := "/after=" + strings.Join(dedupStrings(after), "+") + tag
			vs = append(vs, Violation{Class: "follow-up-blocked/" + errClass(e) + tag,
				Msg: fmt.Sprintf("after all contending transactions finished or gave up, a follow-up transaction on the same keys ended %s after %.1f s: %s", tr.Outcome, took, e)})
		} else if took > 30 {
			vs = append(vs, Violation{Class: "follow-up-waited" + tag,
				Msg: fmt.Sprintf("the follow-up transaction committed only after %.1f simulated s (%d clock jumps): it had to wait for locks left behind", took, tr.ClockJumps)})
		}
	}
	return dedupe(vs)
}

func nontrivialC15(c *Case, res *Result) string {
	s := nontrivialConc(c, res)
	if s == "" {
		// the contention group is not the last group here
		var b strings.Builder
		fmt.Fprintf(&b, "%x", res.Sim.SchedHash())
		for _, t := range res.Txns {
			b.WriteString(t.Name + t.Outcome)
		}
		return fmt.Sprintf("%x", fnv(b.String()))
	}
	return s
}

func init() {
	cc := &caseCheck{id: "C15", gen: genC15, oracle: oracleC15, nontrivial: nontrivialC15, perUnit: func(string) int { return 15 }}
	Register(cc.def("exploration",
		"2-4 concurrent writers over 4-8 overlapping keys of 1-2 stores, even/odd writers touching the keys in opposite orders, maxTime in {2,5,20,120} s, a third with a caller deadline of 1..300 s, a quarter of the runs use a directed shape (a writer that retries after a version conflict, finds the node lock held by a stalled holder and gives up at a caller deadline far below its maxTime); in half of the other runs one writer is stalled by the simulator for 1.5 s..10 min at a PRNG-chosen call of its commit (a lock holder that hangs); simulated clock. Oracle: for every non-stalled transaction Commit returns within min(deadline, maxTime) + max(5 s, 25%); the scheduler's step cap is never hit (no livelock); afterwards a follow-up transaction on the same keys commits within 30 simulated seconds. distinct_nontrivial = distinct context-switch sequences",
		func(tier string) int {
			if tier == "thorough" {
				return 1600
			}
			return 480
		}))
}

func dedupStrings(a []string) []string {
	var out []string
	for i, x := range a {
		if i == 0 || x != a[i-1] {
			out = append(out, x)
		}
	}
	return out
}
