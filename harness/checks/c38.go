package checks

import (
	"bytes"
	"context"
	"fmt"
	"math/rand/v2"
	"reflect"
	"sort"
	"strings"

	"github.com/sharedcode/sop"
	"github.com/sharedcode/sop/infs"
	"verif/harness/sim"
)

// C38: values returned by reads are private to the caller. Reference-typed values read from a
// store are modified in place and never written back; no later read (same transaction, later
// transactions of the same process, a cold process) may observe the modification.

type pvStruct struct {
	A int            `json:"a"`
	B []int          `json:"b"`
	M map[string]int `json:"m"`
}

type pvNested struct {
	Name string   `json:"name"`
	Tags []string `json:"tags"`
}

type valOps[TV any] struct {
	mk     func(key, ver int) TV
	mutate func(v *TV) // modifies what *v references, in place
	evil   func() TV   // a value assigned through an item's Value pointer
}

func pvOpsBytes() valOps[[]byte] {
	return valOps[[]byte]{
		mk: func(k, ver int) []byte {
			return []byte(fmt.Sprintf("key%d.ver%d.%s", k, ver, strings.Repeat("x", 8+k%5)))
		},
		mutate: func(v *[]byte) {
			for i := range *v {
				(*v)[i] = '!'
			}
		},
		evil: func() []byte { return []byte("EVIL") },
	}
}

func pvOpsInts() valOps[[]int] {
	return valOps[[]int]{
		mk: func(k, ver int) []int { return []int{k, ver, k * 7, ver * 13, 5} },
		mutate: func(v *[]int) {
			for i := range *v {
				(*v)[i] = -99
			}
		},
		evil: func() []int { return []int{-1} },
	}
}

func pvOpsMap() valOps[map[string]string] {
	return valOps[map[string]string]{
		mk: func(k, ver int) map[string]string {
			return map[string]string{"key": fmt.Sprint(k), "ver": fmt.Sprint(ver), "pad": "p"}
		},
		mutate: func(v *map[string]string) {
			if *v == nil {
				return
			}
			(*v)["key"] = "EVIL"
			(*v)["extra"] = "EVIL"
			delete(*v, "pad")
		},
		evil: func() map[string]string { return map[string]string{"evil": "1"} },
	}
}

func pvOpsPtr() valOps[*pvStruct] {
	return valOps[*pvStruct]{
		mk: func(k, ver int) *pvStruct {
			return &pvStruct{A: k*1000 + ver, B: []int{k, ver}, M: map[string]int{"k": k, "v": ver}}
		},
		mutate: func(v **pvStruct) {
			if *v == nil {
				return
			}
			(*v).A = -1
			if len((*v).B) > 0 {
				(*v).B[0] = -1
			}
			if (*v).M != nil {
				(*v).M["k"] = -1
			}
		},
		evil: func() *pvStruct { return &pvStruct{A: -7} },
	}
}

func pvOpsNested() valOps[pvNested] {
	return valOps[pvNested]{
		mk: func(k, ver int) pvNested {
			return pvNested{Name: fmt.Sprintf("n%d.%d", k, ver), Tags: []string{fmt.Sprint(k), fmt.Sprint(ver), "t"}}
		},
		mutate: func(v *pvNested) {
			for i := range v.Tags {
				v.Tags[i] = "EVIL"
			}
		},
		evil: func() pvNested { return pvNested{Name: "EVIL"} },
	}
}

func pvEq(a, b any) bool {
	if x, ok := a.([]byte); ok {
		return bytes.Equal(x, b.([]byte))
	}
	return reflect.DeepEqual(a, b)
}

func genC38(r *rand.Rand, tier string) *progCase {
	c := &progCase{Seed: r.Uint64(), Kind: pick(r, "bytes", "ints", "map", "ptr", "nested"), P: map[string]int{}}
	switch r.IntN(3) {
	case 0:
		c.Policy = "pct"
	case 1:
		c.Policy, c.Sticky = "random", 0.5
	default:
		c.Policy, c.Sticky = "random", 0.9
	}
	c.P["vmode"] = pick(r, 0, 0, 1, 2, 3)
	c.P["slot"] = pick(r, 2, 4, 8)
	c.P["cache"] = pick(r, 0, 1, 2)
	nk := pick(r, 1, 3, 6, 12)
	c.P["keys"] = nk
	modes := []string{"r", "w", "n"}
	n := 2 + r.IntN(6)
	group := 0
	for i := 0; i < n; i++ {
		key := 1 + r.IntN(nk)
		switch x := r.IntN(10); {
		case x < 4:
			c.Steps = append(c.Steps, PStep{K: "mut", Key: key, Mode: pick(r, modes...), Via: pick(r, "find", "scan"),
				Mut: pick(r, "value-deep", "item-deep", "item-assign"), Same: r.IntN(2) == 0, End: pick(r, "commit", "rollback", "none")})
		case x < 6:
			// a writer reads and modifies Key in place, updates another key (Key2) and commits
			k2 := 1 + r.IntN(nk)
			c.Steps = append(c.Steps, PStep{K: "mutwr", Key: key, Key2: k2, Mode: "w", Via: pick(r, "find", "scan"),
				Mut: pick(r, "value-deep", "item-deep", "item-assign"), End: pick(r, "commit", "commit", "rollback")})
		case x < 7:
			c.Steps = append(c.Steps, PStep{K: "wr", Key: key})
		case x < 8:
			// a modifier and a reader of the same key run concurrently
			group++
			c.Steps = append(c.Steps, PStep{K: "mut", Key: key, Mode: pick(r, modes...), Via: "find", Mut: pick(r, "value-deep", "item-deep", "item-assign"),
				End: pick(r, "commit", "rollback"), Group: group})
			c.Steps = append(c.Steps, PStep{K: "chk", Key: key, Mode: pick(r, modes...), Via: pick(r, "find", "scan"), Group: group})
		case x < 9:
			c.Steps = append(c.Steps, PStep{K: "restart"})
		}
		c.Steps = append(c.Steps, PStep{K: "chk", Key: key, Mode: pick(r, modes...), Via: pick(r, "find", "scan")})
	}
	// a final check of every key, warm and cold
	for k := 1; k <= nk; k++ {
		c.Steps = append(c.Steps, PStep{K: "chk", Key: k, Mode: "r", Via: "find"})
	}
	c.Steps = append(c.Steps, PStep{K: "restart"})
	for k := 1; k <= nk; k++ {
		c.Steps = append(c.Steps, PStep{K: "chk", Key: k, Mode: "r", Via: "find"})
	}
	return c
}

func runC38(c *progCase) ([]Violation, *progStats) {
	switch c.Kind {
	case "bytes":
		return runPrivacy(c, pvOpsBytes())
	case "ints":
		return runPrivacy(c, pvOpsInts())
	case "map":
		return runPrivacy(c, pvOpsMap())
	case "ptr":
		return runPrivacy(c, pvOpsPtr())
	default:
		return runPrivacy(c, pvOpsNested())
	}
}

func runPrivacy[TV any](c *progCase, ops valOps[TV]) ([]Violation, *progStats) {
	st := &progStats{Probes: map[string]int{}}
	e, err := progEnv(c)
	if err != nil {
		st.InfraErr = err.Error()
		return nil, st
	}
	defer e.Close()
	st.S = e.S
	var vs []Violation
	ver := map[int]int{}         // model: key -> version
	dirty := map[string]bool{}   // (key, where) pairs already reported
	cold := true                 // no modification happened in this process incarnation yet
	leaked := map[int][]string{} // key -> kinds of un-written-back modifications since its last Update
	onDisk := map[int]bool{}     // a writer transaction committed while the key had such a modification
	writerCommitted := func() {
		for k, l := range leaked {
			if len(l) > 0 {
				onDisk[k] = true
			}
		}
	}
	sp := StoreSpec{Name: "pv", Slot: c.P["slot"], Unique: true, ValueMode: c.P["vmode"], CacheMode: c.P["cache"]}
	tag := "/value-in-node"
	if c.P["vmode"] != 0 {
		tag = "/value-out-of-node"
	}
	kindNote := fmt.Sprintf("[value type %s, value placement %d] ", c.Kind, c.P["vmode"])
	txo := func(mode string) sop.TransactionOptions { return e.txOptions(mode, 0) }
	report := func(class, msg string) { vs = append(vs, Violation{Class: class, Msg: msg}) }

	setupErr := ""
	e.runTasks([]string{"setup"}, []func(*sim.Task){func(t *sim.Task) {
		ctx := context.Background()
		tr, err := infs.NewTransaction(ctx, txo("w"))
		if err != nil {
			setupErr = err.Error()
			return
		}
		tr.Begin(ctx)
		b, err := infs.NewBtree[int, TV](ctx, storeOptions(sp), tr, nil)
		if err != nil {
			setupErr = err.Error()
			return
		}
		for k := 1; k <= c.P["keys"]; k++ {
			if ok, err := b.Add(ctx, k, ops.mk(k, 0)); !ok || err != nil {
				setupErr = fmt.Sprintf("add %d: %v %v", k, ok, err)
				return
			}
		}
		if err := tr.Commit(ctx); err != nil {
			setupErr = err.Error()
		}
	}})
	if setupErr != "" {
		st.InfraErr = "C38 setup: " + setupErr
		return nil, st
	}

	// one transaction body: returns the read value (before any modification by this step)
	type stepOut struct {
		got, again any
		found      bool
		err        string
		committed  bool
	}
	doStep := func(s PStep, out *stepOut) func(t *sim.Task) {
		return func(t *sim.Task) {
			ctx := context.Background()
			tr, err := infs.NewTransaction(ctx, txo(s.Mode))
			if err != nil {
				out.err = err.Error()
				return
			}
			if err := tr.Begin(ctx); err != nil {
				out.err = err.Error()
				return
			}
			done := false
			defer func() {
				if !done && tr.HasBegun() {
					tr.Rollback(ctx)
				}
			}()
			b, err := infs.OpenBtree[int, TV](ctx, sp.Name, tr, nil)
			if err != nil {
				out.err = "open: " + err.Error()
				return
			}
			goTo := func() (bool, error) {
				if s.Via == "scan" {
					ok, err := b.First(ctx)
					for n := 0; ok && err == nil && n < scanCap; n++ {
						if b.GetCurrentKey().Key == s.Key {
							return true, nil
						}
						ok, err = b.Next(ctx)
					}
					return false, err
				}
				return b.Find(ctx, s.Key, false)
			}
			ok, err := goTo()
			if err != nil || !ok {
				out.err = fmt.Sprintf("locate key %d: found=%v err=%v", s.Key, ok, err)
				return
			}
			out.found = true
			clone := func(v TV) any {
				// deep copy through JSON-free reflection: values here are plain data
				return deepCopy(v)
			}
			switch s.K {
			case "chk":
				v, err := b.GetCurrentValue(ctx)
				if err != nil {
					out.err = "GetCurrentValue: " + err.Error()
					return
				}
				out.got = clone(v)
			default:
				if strings.HasPrefix(s.Mut, "item") {
					it, err := b.GetCurrentItem(ctx)
					if err != nil {
						out.err = "GetCurrentItem: " + err.Error()
						return
					}
					if it.Value == nil {
						out.err = "GetCurrentItem: nil Value"
						return
					}
					out.got = clone(*it.Value)
					if s.Mut == "item-assign" {
						*it.Value = ops.evil()
					} else {
						ops.mutate(it.Value)
					}
				} else {
					v, err := b.GetCurrentValue(ctx)
					if err != nil {
						out.err = "GetCurrentValue: " + err.Error()
						return
					}
					out.got = clone(v)
					ops.mutate(&v)
				}
				if s.Same {
					if ok, err := goTo(); ok && err == nil {
						if v, err := b.GetCurrentValue(ctx); err == nil {
							out.again = clone(v)
						}
					}
				}
				if s.K == "mutwr" {
					if ok, err := b.Update(ctx, s.Key2, ops.mk(s.Key2, ver[s.Key2]+1)); !ok || err != nil {
						out.err = fmt.Sprintf("update key %d: %v %v", s.Key2, ok, err)
						return
					}
				}
			}
			switch s.End {
			case "rollback":
				done = true
				tr.Rollback(ctx)
			case "none":
				// the transaction object is simply dropped
				done = true
			default:
				done = true
				if err := tr.Commit(ctx); err == nil {
					out.committed = true
				} else if s.K == "mutwr" {
					out.err = "commit: " + err.Error()
				}
			}
		}
	}

	judge := func(s PStep, out *stepOut, where string) {
		dk := fmt.Sprintf("%d/%s", s.Key, strings.SplitN(where, "/", 2)[0])
		if out.err != "" {
			// a failed read is not this property's subject unless a leak made the item unreadable
			st.Probes["step_errors"]++
			if len(leaked[s.Key]) > 0 && !dirty[dk] && strings.Contains(out.err, "locate") {
				report("value-lost/"+where+tag, kindNote+fmt.Sprintf("step %+v: %s (model version %d)", s, out.err, ver[s.Key]))
				dirty[dk] = true
			}
			return
		}
		want := any(ops.mk(s.Key, ver[s.Key]))
		if out.got != nil && !pvEq(out.got, deepCopy(want)) && !dirty[dk] {
			src := strings.Join(leaked[s.Key], "+")
			if src == "" {
				src = "no-modification"
			}
			if where == "cold-process" {
				// only a writer that commits afterwards can carry the modification to disk
				if onDisk[s.Key] {
					where += "/writer-committed-after"
				} else {
					where += "/no-writer-after"
				}
			}
			report("leak/"+where+tag, kindNote+fmt.Sprintf("step %+v read %v for key %d; the committed value is %v: an in-place modification made by an earlier step that was never written back is visible (modifications of this key since its last update: %s)", s, out.got, s.Key, want, src))
			dirty[dk] = true
		}
		if out.again != nil && !pvEq(out.again, deepCopy(want)) {
			report("leak/same-transaction/"+s.Mut+tag, kindNote+fmt.Sprintf("step %+v: after modifying the returned %s in place, the same transaction re-read key %d as %v; committed value %v", s, s.Mut, s.Key, out.again, want))
		}
	}

	for i := 0; i < len(c.Steps); i++ {
		s := c.Steps[i]
		switch s.K {
		case "restart":
			e.W.Restart()
			cold = true
			continue
		case "wr":
			var out stepOut
			s2 := PStep{K: "mutwr", Key: s.Key, Key2: s.Key, Mode: "w", Via: "find", Mut: "none", End: "commit"}
			// plain update: read nothing, write Key
			panics := e.runTasks([]string{fmt.Sprintf("s%d", i)}, []func(*sim.Task){func(t *sim.Task) {
				ctx := context.Background()
				tr, err := infs.NewTransaction(ctx, txo("w"))
				if err != nil {
					out.err = err.Error()
					return
				}
				tr.Begin(ctx)
				b, err := infs.OpenBtree[int, TV](ctx, sp.Name, tr, nil)
				if err != nil {
					out.err = err.Error()
					tr.Rollback(ctx)
					return
				}
				if ok, err := b.Update(ctx, s2.Key, ops.mk(s2.Key, ver[s2.Key]+1)); !ok || err != nil {
					out.err = fmt.Sprintf("update: %v %v", ok, err)
					tr.Rollback(ctx)
					return
				}
				if err := tr.Commit(ctx); err == nil {
					out.committed = true
				}
			}})
			if panics[0] != "" {
				report(panicClass(panics[0])+tag, kindNote+panics[0])
				return vs, finishProg(e, st, c)
			}
			if out.committed {
				writerCommitted()
				ver[s.Key]++
				leaked[s.Key] = nil
				onDisk[s.Key] = false
				for k := range dirty {
					if strings.HasPrefix(k, fmt.Sprintf("%d/", s.Key)) {
						delete(dirty, k)
					}
				}
			}
			continue
		}
		// collect the group
		steps := []PStep{s}
		for s.Group != 0 && i+1 < len(c.Steps) && c.Steps[i+1].Group == s.Group {
			i++
			steps = append(steps, c.Steps[i])
		}
		outs := make([]*stepOut, len(steps))
		var names []string
		var fns []func(*sim.Task)
		for j := range steps {
			outs[j] = &stepOut{}
			names = append(names, fmt.Sprintf("s%d.%d", i, j))
			fns = append(fns, doStep(steps[j], outs[j]))
		}
		panics := e.runTasks(names, fns)
		for j, p := range panics {
			if p != "" {
				report(panicClass(p)+tag, kindNote+fmt.Sprintf("step %+v: %s", steps[j], p))
				return vs, finishProg(e, st, c)
			}
		}
		for j, sj := range steps {
			where := "later-transaction"
			if cold {
				where = "cold-process"
			}
			if len(steps) > 1 {
				where = "concurrent-transaction"
			}
			judge(sj, outs[j], where)
		}
		for j, sj := range steps {
			if sj.K == "mut" || sj.K == "mutwr" {
				if outs[j].found {
					cold = false
					kind := sj.Mut + "-" + sj.End + "-mode" + sj.Mode
					if sj.K == "mutwr" {
						kind += "-with-write"
					}
					if !containsStr(leaked[sj.Key], kind) {
						leaked[sj.Key] = append(leaked[sj.Key], kind)
						sort.Strings(leaked[sj.Key])
					}
					st.Probes["modifications"]++
				}
				if sj.Mode == "w" && outs[j].committed {
					writerCommitted()
				}
				if sj.K == "mutwr" && outs[j].committed {
					ver[sj.Key2]++
					leaked[sj.Key2] = nil
					onDisk[sj.Key2] = false
				}
			}
		}
	}
	return vs, finishProg(e, st, c)
}

func finishProg(e *Env, st *progStats, c *progCase) *progStats {
	st.Hash = e.S.LogHash()
	st.Nontriv = fmt.Sprintf("%x", fnv(fmt.Sprintf("%d|%x|%s", c.Seed, e.S.SchedHash(), mustJSON(c.Steps))))
	return st
}

// deepCopy copies plain data values (slices, maps, pointers to structs) so that a later in-place
// modification of the original cannot change what the harness recorded.
func deepCopy(v any) any {
	if v == nil {
		return nil
	}
	return deepCopyValue(reflect.ValueOf(v)).Interface()
}

func deepCopyValue(v reflect.Value) reflect.Value {
	switch v.Kind() {
	case reflect.Slice:
		if v.IsNil() {
			return v
		}
		n := reflect.MakeSlice(v.Type(), v.Len(), v.Len())
		for i := 0; i < v.Len(); i++ {
			n.Index(i).Set(deepCopyValue(v.Index(i)))
		}
		return n
	case reflect.Map:
		if v.IsNil() {
			return v
		}
		n := reflect.MakeMapWithSize(v.Type(), v.Len())
		it := v.MapRange()
		for it.Next() {
			n.SetMapIndex(it.Key(), deepCopyValue(it.Value()))
		}
		return n
	case reflect.Pointer:
		if v.IsNil() {
			return v
		}
		n := reflect.New(v.Type().Elem())
		n.Elem().Set(deepCopyValue(v.Elem()))
		return n
	case reflect.Struct:
		n := reflect.New(v.Type()).Elem()
		for i := 0; i < v.NumField(); i++ {
			if n.Field(i).CanSet() {
				n.Field(i).Set(deepCopyValue(v.Field(i)))
			}
		}
		return n
	}
	return v
}

func init() {
	pc := &progCheck{id: "C38", perUnit: 10, gen: genC38, run: runC38}
	Register(pc.def("exploration",
		"each evaluation = one store of a reference-typed value ([]byte, []int, map[string]string, *struct with slice and map, struct with a nested slice) in one of the four value placements, 1-12 keys, and a seeded program of 2-7 rounds: a transaction (reader/writer/no-check) reads a key (Find or First/Next scan; GetCurrentValue or GetCurrentItem), modifies the returned value in place (element writes, map writes, pointee fields, or assignment through Item.Value), optionally re-reads it in the same transaction, optionally updates ANOTHER key, and ends by commit / rollback / being dropped; readers of the same key run afterwards (warm process), concurrently (seeded schedule), and after a restart (cold). Every read must return the last value written by an Update. distinct_nontrivial = distinct (program, context-switch sequence)",
		func(tier string) int {
			if tier == "thorough" {
				return 1200
			}
			return 64
		},
		[]string{"btree read path (GetCurrentValue, GetCurrentItem), node and item copies, L1 MRU cache cloning, in-memory L2 (JSON), node serialization on commit, blob files"},
		[]string{"goroutine scheduling between tasks", "wall clock", "disk through the simulated file layer"},
		[]string{"in-process standalone mode; values are plain data types", "sampling, not proof"}))
}

func containsStr(a []string, x string) bool {
	for _, y := range a {
		if y == x {
			return true
		}
	}
	return false
}
