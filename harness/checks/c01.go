package checks

import (
	"fmt"
	"math/rand/v2"
	"strings"

	"verif/harness/sim"
)

// C01: a transaction's changes appear all-or-nothing across every store.

var ioRates = []sim.Rates{
	{Prefix: "fio.WriteFile", Kind: "eio", P: 0.012},
	{Prefix: "fio.Remove", Kind: "eio", P: 0.006},
	{Prefix: "fio.ReadFile", Kind: "eio", P: 0.01},
	{Prefix: "fio.MkdirAll", Kind: "enospc", P: 0.01},
	{Prefix: "dio.WriteAt", Kind: "eio", P: 0.015},
	{Prefix: "dio.WriteAt", Kind: "short", P: 0.005, Arg: 512},
	{Prefix: "dio.ReadAt", Kind: "eio", P: 0.008},
	{Prefix: "dio.", Kind: "eacces", P: 0.004},
	{Prefix: "os.Create", Kind: "enospc", P: 0.02},
	{Prefix: "tlog.Add", Kind: "eio", P: 0.01},
	{Prefix: "l2.Lock", Kind: "err", P: 0.01},
	{Prefix: "l2.DualLock", Kind: "err", P: 0.01},
	{Prefix: "l2.IsLocked", Kind: "err", P: 0.01},
	{Prefix: "l2.Get", Kind: "lost", P: 0.01},
	{Prefix: "l2.Unlock", Kind: "err", P: 0.004},
}

// cacheRates adds failures of the cache data path (Redis unavailable) to ioRates.
var cacheRates = append(append([]sim.Rates{}, ioRates...),
	sim.Rates{Prefix: "l2.Set", Kind: "err", P: 0.006},
	sim.Rates{Prefix: "l2.Get", Kind: "err", P: 0.006},
	sim.Rates{Prefix: "l2.Delete", Kind: "err", P: 0.004},
)

func genC01(r *rand.Rand, tier string) *Case {
	c := &Case{Seed: r.Uint64(), Policy: "seq", HashMod: pick(r, 1, 2, 4, 250)}
	ns := 1 + r.IntN(3)
	c.Stores = genStores(r, ns, false)
	keyspace := pick(r, 8, 16, 40)
	m := Model{}
	// some stores are created by the subject itself ("new store" shape)
	late := map[int]bool{}
	if ns > 1 && r.IntN(3) == 0 {
		late[ns-1] = true
	}
	pre := *c
	pre.Stores = nil
	for i, sp := range c.Stores {
		if !late[i] {
			pre.Stores = append(pre.Stores, sp)
		}
	}
	setup := Txn{Name: "setup", Mode: "w", End: "commit"}
	{
		tmp := &Case{Stores: c.Stores}
		full := setupTxn(r, tmp, m, r.IntN(keyspace/2+1), keyspace)
		for _, idx := range full.Create {
			if !late[idx] {
				setup.Create = append(setup.Create, idx)
			}
		}
		for _, op := range full.Ops {
			if !late[op.S] {
				setup.Ops = append(setup.Ops, op)
			}
		}
		for i := range c.Stores {
			if late[i] {
				delete(m, c.Stores[i].Name)
			}
		}
	}
	c.Phases = append(c.Phases, Phase{Kind: "group", Txns: []Txn{setup}})
	existing := []int{}
	for i := range c.Stores {
		if !late[i] {
			existing = append(existing, i)
		}
	}
	np := r.IntN(3)
	for p := 0; p < np; p++ {
		tx := Txn{Name: fmt.Sprintf("pre%d", p), Mode: "w", End: "commit"}
		tx.Ops = genOps(r, c, m, existing, 1+r.IntN(8), keyspace, tx.Name, writeKinds)
		c.Phases = append(c.Phases, Phase{Kind: "group", Txns: []Txn{tx}})
		if r.IntN(3) == 0 {
			c.Phases = append(c.Phases, Phase{Kind: "restart"})
		}
	}
	// subject
	sub := Txn{Name: "subject", Mode: "w", End: pick(r, "commit", "commit", "commit", "commit", "rollback")}
	var touch []int
	for i := range c.Stores {
		if late[i] {
			sub.Create = append(sub.Create, i)
			touch = append(touch, i)
		} else if r.IntN(3) != 0 || len(touch) == 0 && i == len(c.Stores)-1 {
			touch = append(touch, i)
		}
	}
	mm := m.clone()
	for i := range c.Stores {
		if late[i] {
			mm[c.Stores[i].Name] = []KV{}
		}
	}
	nops := pick(r, 1, 3, 6, 12, 25)
	sub.Ops = genOps(r, c, mm, touch, nops, keyspace, "sub", writeKinds)
	c.Phases = append(c.Phases, Phase{Kind: "group", Txns: []Txn{sub}})
	c.FaultPhase = len(c.Phases) - countNonGroup(c.Phases)
	c.Phases = append(c.Phases, Phase{Kind: "observe", Label: "warm"}, Phase{Kind: "observe_cold", Label: "cold"})
	switch r.IntN(4) {
	case 0: // fault-free sub-batch
	default:
		c.Rates = ioRates
		c.MaxRand = 1
	}
	return c
}

func countNonGroup(ph []Phase) int {
	n := 0
	for _, p := range ph {
		if p.Kind != "group" {
			n++
		}
	}
	return n
}

// expectedStates computes (S0, S0+W) for the last group's single transaction; all earlier
// groups are single sequential committed transactions.
func expectedStates(c *Case, res *Result) (s0, s1 Model, subject *Txn, subRes *TxnResult, problem string) {
	m := Model{}
	skipStores = nil
	lastGroup := -1
	for i, ph := range c.Phases {
		if ph.Kind == "group" {
			lastGroup = i
		}
	}
	for i, ph := range c.Phases {
		if ph.Kind != "group" {
			continue
		}
		for ti := range ph.Txns {
			tx := &ph.Txns[ti]
			var tr *TxnResult
			for k := range res.Txns {
				if res.Txns[k].Name == tx.Name && res.Txns[k].Phase == i {
					tr = &res.Txns[k]
				}
			}
			if i == lastGroup {
				subject, subRes = tx, tr
				continue
			}
			if tr == nil || tr.Outcome != "committed" {
				e := "missing"
				if tr != nil {
					e = tr.Outcome + " " + tr.CommitErr + tr.OpenErr + tr.BeginErr
					for _, o := range tr.Ops {
						if o.Err != "" {
							e += " op:" + o.Err
						}
					}
				}
				problem = fmt.Sprintf("fault-free sequential transaction %s did not commit: %s", tx.Name, e)
				return
			}
			m.ApplyTxn(c, tx)
		}
	}
	s0 = m
	s1 = m.clone()
	if subject != nil {
		skipStores = s1.ApplyTxnObserved(c, subject, subRes)
	}
	return
}

// skipStores: stores whose B-tree call results disagreed with the model during the last
// expectedStates call (not judged by all-or-nothing checks; that is C17's business).
var skipStores map[string]bool

// apFlag reports whether the subject transaction touches an actively persisted store.
func apFlag(c *Case, tx *Txn) int {
	for _, sp := range c.Stores {
		if sp.ValueMode == 2 || sp.ValueMode == 4 {
			return 1
		}
	}
	for _, idx := range tx.Create {
		if c.Stores[idx].ValueMode == 2 || c.Stores[idx].ValueMode == 4 {
			return 1
		}
	}
	for _, op := range tx.Ops {
		if c.Stores[op.S].ValueMode == 2 || c.Stores[op.S].ValueMode == 4 {
			return 1
		}
	}
	return 0
}

// panicClass names a panic by the first sop frame of its stack.
func panicClass(stack string) string {
	for _, line := range strings.Split(stack, "\n") {
		if i := strings.Index(line, "github.com/sharedcode/sop/"); i == 0 {
			fn := strings.TrimPrefix(line, "github.com/sharedcode/sop/")
			if j := strings.LastIndex(fn, "("); j > 0 {
				fn = fn[:j]
			}
			fn = strings.ReplaceAll(fn, "[...]", "")
			return "panic/" + strings.TrimRight(fn, ".")
		}
	}
	return "panic"
}

func errClass(e string) string {
	// structural class of an error text: drop ids, paths and numbers
	e = strings.ToLower(e)
	var b strings.Builder
	for _, w := range strings.Fields(e) {
		if strings.ContainsAny(w, "0123456789/") {
			continue
		}
		b.WriteString(w)
		b.WriteByte(' ')
		if b.Len() > 70 {
			break
		}
	}
	return strings.TrimSpace(b.String())
}

func firedSummary(res *Result) string {
	var parts []string
	for _, f := range res.Sim.Fired {
		parts = append(parts, fmt.Sprintf("%s@%s#%d(%s)", f.Kind, f.Task, f.Op, f.Match))
	}
	return strings.Join(parts, ", ")
}

func oracleC01(c *Case, res *Result) []Violation {
	var vs []Violation
	ptag := ""
	if len(res.Sim.Fired) > 0 {
		fop := res.Sim.Fired[0].Match
		if i := strings.IndexByte(fop, ' '); i > 0 {
			fop = fop[:i]
		}
		ptag = "/" + res.Sim.Fired[0].Kind + "@" + fop
	}
	for _, t := range res.Txns {
		if t.Outcome == "panic" {
			vs = append(vs, Violation{Class: panicClass(t.Panic) + ptag, Msg: t.Name + " panicked: " + t.Panic})
		}
	}
	if len(vs) > 0 {
		return vs
	}
	s0, s1, sub, sr, problem := expectedStates(c, res)
	if problem != "" {
		return []Violation{{Class: "prefix-commit-failed", Msg: problem}}
	}
	if sr == nil {
		return nil
	}
	if sr.Outcome == "rolledback" && sr.CommitErr != "" {
		// Rollback itself reported a failure (the injected fault hit it): the caller was told
		// that the roll-back did not complete, the statement makes no promise for that case.
		return nil
	}
	// trigger tag: what kind of call the injected failure hit (empty when nothing was injected)
	ftag := ""
	if len(res.Sim.Fired) > 0 {
		fop := res.Sim.Fired[0].Match
		if i := strings.IndexByte(fop, ' '); i > 0 {
			fop = fop[:i]
		}
		ftag = "/" + res.Sim.Fired[0].Kind + "@" + fop
	}
	want := s0
	state := "S0 (nothing)"
	if sr.Outcome == "committed" {
		want = s1
		state = "S0+W (everything)"
	}
	for _, o := range res.Obs {
		if o.Err != "" {
			vs = append(vs, Violation{Class: "observer-error", Msg: fmt.Sprintf("observer %s: %s", o.Label, o.Err)})
			continue
		}
		for _, sp := range c.Stores {
			w, exists := want[sp.Name]
			if skipStores[sp.Name] {
				continue // unpredictable (B-tree call results disagreed with the model: C17's business)
			}
			d := o.Stores[sp.Name]
			if diff := compareDump(d, w, exists); diff != "" {
				// is it the other state, or a mixture?
				kind := "mixture"
				ow, oex := s0[sp.Name], false
				if sr.Outcome == "committed" {
					_, oex = s0[sp.Name]
				} else {
					ow = s1[sp.Name]
					_, oex = s1[sp.Name]
				}
				if compareDump(d, ow, oex) == "" {
					if sr.Outcome == "committed" {
						kind = "success-but-nothing-applied"
					} else {
						kind = "error-but-applied"
					}
				}
				if strings.HasPrefix(diff, "cannot open") || strings.HasPrefix(diff, "scan failed") {
					kind = "unreadable"
				}
				if strings.HasPrefix(diff, "store exists") {
					kind = "store-existence"
				}
				vs = append(vs, Violation{Class: fmt.Sprintf("%s/%s/%s/ap%d/faults%d", kind, sub.End, sr.Outcome, apFlag(c, sub), len(res.Sim.Fired)) + ftag,
					Msg: fmt.Sprintf("subject %s ended %s (err=%q); expected %s; observer %s store %s: %s; faults: %s",
						sub.Name, sr.Outcome, sr.CommitErr+sr.OpenErr, state, o.Label, sp.Name, diff, firedSummary(res))})
				continue
			}
			if exists && d.Count != int64(len(d.Items)) {
				vs = append(vs, Violation{Class: fmt.Sprintf("count-mismatch/%s/%s/ap%d/faults%d", sub.End, sr.Outcome, apFlag(c, sub), len(res.Sim.Fired)) + ftag,
					Msg: fmt.Sprintf("subject %s ended %s; observer %s store %s: Count()=%d but scan has %d items; faults: %s",
						sub.Name, sr.Outcome, o.Label, sp.Name, d.Count, len(d.Items), firedSummary(res))})
			}
		}
	}
	return vs
}

func lateStore(c *Case, sub *Txn, name string) bool {
	for _, idx := range sub.Create {
		if c.Stores[idx].Name == name {
			return true
		}
	}
	return false
}

func nontrivialC01(c *Case, res *Result) string {
	// non-trivial: the subject reached Commit/Rollback with at least one write, or a fault fired
	var sr *TxnResult
	for i := range res.Txns {
		if res.Txns[i].Name == "subject" {
			sr = &res.Txns[i]
		}
	}
	if sr == nil {
		return ""
	}
	if len(res.Sim.Fired) == 0 && sr.CommitSeq == 0 && sr.Outcome != "rolledback" {
		return ""
	}
	var b strings.Builder
	fmt.Fprintf(&b, "%s|", sr.Outcome)
	for _, f := range res.Sim.Fired {
		fmt.Fprintf(&b, "%s@%d:%s|", f.Kind, f.Op, f.Match)
	}
	for _, o := range c.Phases[lastGroupIdx(c)].Txns[0].Ops {
		fmt.Fprintf(&b, "%s%d.%d,", o.K, o.S, o.Key)
	}
	return fmt.Sprintf("%x", fnv(b.String()))
}

func lastGroupIdx(c *Case) int {
	g := -1
	for i, ph := range c.Phases {
		if ph.Kind == "group" {
			g = i
		}
	}
	return g
}

func fnv(s string) uint64 {
	var h uint64 = 1469598103934665603
	for i := 0; i < len(s); i++ {
		h ^= uint64(s[i])
		h *= 1099511628211
	}
	return h
}

func init() {
	cc := &caseCheck{id: "C01", gen: genC01, oracle: oracleC01, nontrivial: nontrivialC01,
		perUnit: func(string) int { return 25 }}
	Register(cc.def("exploration",
		"each evaluation = one generated program (setup + 0-2 committed prefix transactions + one subject transaction over 1-3 stores with random store options, ended by commit or rollback) executed on the simulated disk/cache with 0-2 PRNG-placed I/O, lock or cache faults inside the subject; judged all-or-nothing over all stores jointly by a warm and a cold observer. distinct_nontrivial = distinct (subject outcome, fired fault positions/kinds, subject op list) among runs whose subject reached commit/rollback or met a fault",
		func(tier string) int {
			if tier == "thorough" {
				return 1600
			}
			return 96
		}))
}
