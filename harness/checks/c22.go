package checks

import (
	"context"
	"encoding/json"
	"fmt"
	"hash/crc32"
	"os"
	"path/filepath"
	"strings"

	"github.com/sharedcode/sop"

	"verif/harness/sim"
)

// ---- C22: crash atomicity of a registry block write, with concurrent readers ---------------------

type blockCase struct {
	Seed    uint64          `json:"seed"`
	Mod     int             `json:"mod"`
	N       int             `json:"n"`       // handles populated in the block
	Target  int             `json:"target"`  // index of the handle the writer updates
	Readers int             `json:"readers"` // concurrent reader tasks
	Faults  []sim.FaultSpec `json:"faults,omitempty"`
	Corrupt *corruptSpec    `json:"corrupt,omitempty"`
	Ops     []string        `json:"ops,omitempty"` // C23: operations attempted on the corrupted block
}

func (b *blockCase) reg() *regCase {
	return &regCase{Seed: b.Seed, Mod: b.Mod, Blocks: 1, Slots: 66, Pool: b.N, Faults: b.Faults}
}

func handleFor(rc *regCase, k int, version int32) sop.Handle {
	h := sop.NewHandle(rc.poolID(k))
	h.Version = version
	h.PhysicalIDB = sop.UUID{byte(k + 1), byte(version), 7}
	h.WorkInProgressTimestamp = int64(version) * 10
	return h
}

// runBlockCrashCase: populate, then writer (UpdateNoLocks of one handle) + readers under a fault
// plan; after a crash: restart, look everything up through a new registry, raw-check the block.
func runBlockCrashCase(b *blockCase, profile bool) (vs []Violation, s *sim.Sim, log []sim.Event) {
	rc := b.reg()
	e, err := newRegEnv(rc)
	if err != nil {
		return []Violation{{Class: "infra", Msg: err.Error()}}, nil, nil
	}
	defer e.w.Close(false)
	s = e.s
	if profile {
		s.Cfg.KeepLog = true
	}
	ctx := context.Background()
	fk := "none"
	if len(b.Faults) > 0 {
		fk = fmt.Sprintf("%s@%s", b.Faults[0].Kind, b.Faults[0].Match)
	}
	tag := fmt.Sprintf("/readers%d/%s", b.Readers, fk)
	add := func(class, msg string) {
		for _, v := range vs {
			if v.Class == class+tag {
				return
			}
		}
		vs = append(vs, Violation{Class: class + tag, Msg: msg})
	}
	old := make([]sop.Handle, b.N)
	for k := range old {
		old[k] = handleFor(rc, k, 1)
	}
	newH := handleFor(rc, b.Target, 2)
	faults := s.Cfg.Faults
	s.Cfg.Faults = nil
	// populate (fault-free)
	s.Spawn("populate", 0, func(*sim.Task) {
		reg, closeReg, err := e.registry(ctx)
		if err != nil {
			add("infra", err.Error())
			return
		}
		defer closeReg()
		if err := reg.Add(ctx, e.payloadH(old)); err != nil {
			add("infra", "populate: "+err.Error())
		}
	})
	s.Run()
	if len(vs) > 0 {
		return vs, s, nil
	}
	e.w.Restart()
	s.Cfg.Faults = faults
	okHandle := func(k int, h sop.Handle) bool {
		if k == b.Target {
			return h == old[k] || h == newH
		}
		return h == old[k]
	}
	allIDs := make([]sop.UUID, b.N)
	for k := range allIDs {
		allIDs[k] = rc.poolID(k)
	}
	evict := func() {
		keys := make([]string, b.N)
		for k := range keys {
			keys[k] = allIDs[k].String()
		}
		e.w.InnerL2().Delete(ctx, keys)
	}
	writerDone := false
	s.Spawn("writer", 0, func(*sim.Task) {
		reg, closeReg, err := e.registry(ctx)
		if err != nil {
			add("infra", err.Error())
			return
		}
		defer closeReg()
		reg.UpdateNoLocks(ctx, false, e.payloadH([]sop.Handle{newH}))
		writerDone = true
	})
	for r := 0; r < b.Readers; r++ {
		r := r
		name := fmt.Sprintf("reader%d", r)
		s.Spawn(name, 1+r, func(*sim.Task) { // readers live on other nodes: they survive the writer's crash
			mk := e.registry
			if r%2 == 0 {
				mk = e.registryRO // what a reader transaction uses
			}
			reg, closeReg, err := mk(ctx)
			if err != nil {
				return
			}
			defer closeReg()
			for i := 0; i < 3; i++ {
				evict() // force the lookup to go to the segment file
				res, err := reg.Get(ctx, e.payloadID(allIDs))
				if err != nil {
					continue // a failed lookup is allowed, a wrong answer is not
				}
				byID := map[sop.UUID]int{}
				for k, id := range allIDs {
					byID[id] = k
				}
				if len(res) > 0 {
					for _, h := range res[0].IDs {
						k, known := byID[h.LogicalID]
						if !known {
							add("reader-got-unknown-id", fmt.Sprintf("%s read %d got a handle with an id that was never written: %+v", name, i, h))
						} else if !okHandle(k, h) {
							add("reader-got-mixture", fmt.Sprintf("%s read %d: handle #%d = %+v is neither the old %+v nor the new image", name, i, k, h, old[k]))
						}
					}
				}
			}
		})
	}
	s.Run()
	log = s.Log
	for _, t := range s.Tasks() {
		if t.Panic != nil {
			add(panicClass(t.PanicSt), fmt.Sprintf("%s panicked: %v", t.Name, t.Panic))
		}
	}
	_ = writerDone
	// restart and look everything up
	s.Cfg.Faults = nil
	for k := range s.CrashedNodes {
		delete(s.CrashedNodes, k)
	}
	e.w.Restart()
	// first through a read-only registry (a reader transaction may be the first to come by)
	s.Spawn("after-ro", 8, func(*sim.Task) {
		reg, closeReg, err := e.registryRO(ctx)
		if err != nil {
			add("infra", err.Error())
			return
		}
		defer closeReg()
		for k := 0; k < b.N; k++ {
			res, err := reg.Get(ctx, e.payloadID([]sop.UUID{allIDs[k]}))
			if err != nil || len(res) == 0 || len(res[0].IDs) == 0 {
				continue // a failed read-only lookup is allowed, a wrong answer is not
			}
			if h := res[0].IDs[0]; !okHandle(k, h) {
				add("mixture-after-restart/read-only", fmt.Sprintf("after the crash (%s) a read-only registry reads handle #%d as %+v: neither the old %+v nor (for the updated one) the new image", fk, k, h, old[k]))
			}
		}
	})
	s.Run()
	e.w.Restart()
	s.Spawn("after", 9, func(*sim.Task) {
		reg, closeReg, err := e.registry(ctx)
		if err != nil {
			add("infra", err.Error())
			return
		}
		defer closeReg()
		for k := 0; k < b.N; k++ {
			res, err := reg.Get(ctx, e.payloadID([]sop.UUID{allIDs[k]}))
			if err != nil {
				add("lookup-fails-after-restart", fmt.Sprintf("after the crash (%s) lookup of handle #%d fails: %v", fk, k, err))
				continue
			}
			if len(res) == 0 || len(res[0].IDs) == 0 {
				add("handle-lost-after-restart", fmt.Sprintf("after the crash (%s) handle #%d of the block is no longer found", fk, k))
				continue
			}
			if h := res[0].IDs[0]; !okHandle(k, h) {
				add("mixture-after-restart", fmt.Sprintf("after the crash (%s) handle #%d reads %+v: neither the old %+v nor (for the updated one) the new image", fk, k, h, old[k]))
			}
		}
	})
	s.Run()
	// raw block image: valid checksum and entirely old or entirely new
	files, _ := filepath.Glob(filepath.Join(e.folder, e.table, "*.reg"))
	for _, f := range files {
		data, _ := os.ReadFile(f)
		for off := 0; off+4096 <= len(data); off += 4096 {
			blk := data[off : off+4096]
			if isZero(blk) {
				continue
			}
			if crc32.ChecksumIEEE(blk[:4092]) != uint32(blk[4092])|uint32(blk[4093])<<8|uint32(blk[4094])<<16|uint32(blk[4095])<<24 {
				add("block-left-corrupt", fmt.Sprintf("after the crash (%s), restart and a lookup of every id, block %s@%d still has a wrong checksum", fk, filepath.Base(f), off))
			}
		}
	}
	return vs, s, log
}

func runC22(u *Unit) {
	r := u.Rng
	base := &blockCase{Seed: r.Uint64(), Mod: pick(r, 1, 2, 250), N: pick(r, 2, 5, 20, 66), Readers: r.IntN(3)}
	base.Target = r.IntN(base.N)
	curCase = base
	vs, s, log := runBlockCrashCase(base, true)
	u.Rep.Evals++
	for _, v := range vs {
		if strings.HasPrefix(v.Class, "infra") {
			u.Rep.Infra = v.Msg
			return
		}
		v.Class = "crash-free/" + v.Class
		v.Payload = mustJSON(base)
		u.Rep.Violations = append(u.Rep.Violations, v)
	}
	type pos struct {
		op   int
		kind string
	}
	var positions []pos
	for _, e := range log {
		if e.Task == "writer" && sim.IsMutation(e.Kind) {
			positions = append(positions, pos{e.Op, e.Kind})
		}
	}
	n := 0
	for _, p := range positions {
		var fs []sim.FaultSpec
		fs = append(fs, sim.FaultSpec{Kind: "crash"}, sim.FaultSpec{Kind: "crash_after"})
		switch p.kind {
		case "dio.WriteAt":
			for _, l := range []int64{512, 1024, 1536, 2048, 2560, 3072, 3584, 1, 61, 63, 100, 4091, 4095} {
				fs = append(fs, sim.FaultSpec{Kind: "torn", Arg: l})
			}
		case "fio.WriteFile":
			for _, l := range []int64{0, 1, 2048, 4095} {
				fs = append(fs, sim.FaultSpec{Kind: "torn", Arg: l})
			}
		}
		for _, f := range fs {
			// several schedules per crash variant when readers are present
			scheds := 1
			if base.Readers > 0 {
				scheds = 3
			}
			for sc := 0; sc < scheds; sc++ {
				n++
				cs := *base
				cs.Seed = base.Seed + uint64(sc)*7919
				f.Task, f.Op, f.Match = "writer", p.op, p.kind
				cs.Faults = []sim.FaultSpec{f}
				curCase = &cs
				vs, s2, _ := runBlockCrashCase(&cs, false)
				u.Rep.Evals++
				if s2 != nil {
					u.Rep.Ops += s2.Seq()
					u.Rep.Steps += s2.Steps()
					for k, v := range s2.FaultCount {
						if u.Rep.Faults == nil {
							u.Rep.Faults = map[string]int{}
						}
						u.Rep.Faults[k] += v
					}
					u.Rep.Hashes = append(u.Rep.Hashes, s2.LogHash())
					if len(s2.Diverged) > 0 {
						continue // with readers the writer's call sequence can shift; such runs are not judged
					}
					if len(s2.Fired) == 0 {
						continue
					}
				}
				u.Rep.Sigs = append(u.Rep.Sigs, fmt.Sprintf("%x", fnv(fmt.Sprintf("%d|%d|%s|%s|%d|%d", base.Seed, p.op, p.kind, f.Kind, f.Arg, sc))))
				for _, v := range vs {
					if strings.HasPrefix(v.Class, "infra") {
						u.Rep.Infra = v.Msg
						return
					}
					v.Payload = mustJSON(&cs)
					u.Rep.Violations = append(u.Rep.Violations, v)
				}
			}
		}
	}
	_ = s
	u.Rep.Exhaustive = true
	if u.Index < 3 {
		var ps []string
		for _, p := range positions {
			ps = append(ps, fmt.Sprintf("%d:%s", p.op, p.kind))
		}
		u.Rep.Samples = append(u.Rep.Samples, map[string]any{"case": base, "writer_mutations": ps, "crash_runs": n})
	}
}

func replayBlock(crash bool) func(json.RawMessage) []Violation {
	return func(payload json.RawMessage) []Violation {
		var b blockCase
		if err := json.Unmarshal(payload, &b); err != nil {
			return []Violation{{Class: "bad-replay-file", Msg: err.Error()}}
		}
		if crash {
			vs, _, _ := runBlockCrashCase(&b, false)
			if len(b.Faults) == 0 {
				for i := range vs {
					vs[i].Class = "crash-free/" + vs[i].Class
				}
			}
			return vs
		}
		vs, _ := runCorruptCase(&b)
		return vs
	}
}

// ---- C23: corrupted registry data is reported, never served -------------------------------------

func runCorruptCase(b *blockCase) (vs []Violation, s *sim.Sim) {
	rc := b.reg()
	e, err := newRegEnv(rc)
	if err != nil {
		return []Violation{{Class: "infra", Msg: err.Error()}}, nil
	}
	defer e.w.Close(false)
	s = e.s
	ctx := context.Background()
	cs := b.Corrupt
	tag := fmt.Sprintf("/cow-%s/%s", cs.Cow, cs.Kind)
	add := func(class, msg string) {
		for _, v := range vs {
			if v.Class == class+tag {
				return
			}
		}
		vs = append(vs, Violation{Class: class + tag, Msg: msg})
	}
	v1 := make([]sop.Handle, b.N)
	for k := range v1 {
		v1[k] = handleFor(rc, k, 1)
	}
	v2 := handleFor(rc, b.Target, 2)
	var prevImage []byte
	segFile := ""
	blockOff := 0
	s.Spawn("populate", 0, func(*sim.Task) {
		reg, closeReg, err := e.registry(ctx)
		if err != nil {
			add("infra", err.Error())
			return
		}
		defer closeReg()
		if err := reg.Add(ctx, e.payloadH(v1)); err != nil {
			add("infra", "populate: "+err.Error())
			return
		}
		files, _ := filepath.Glob(filepath.Join(e.folder, e.table, "*.reg"))
		if len(files) == 0 {
			add("infra", "no segment file")
			return
		}
		segFile = files[0]
		data, _ := os.ReadFile(segFile)
		for off := 0; off+4096 <= len(data); off += 4096 {
			if !isZero(data[off : off+4096]) {
				blockOff = off
				prevImage = append([]byte{}, data[off:off+4096]...)
			}
		}
		// second version of one handle: prevImage is now the *previous* valid image
		if err := reg.UpdateNoLocks(ctx, false, e.payloadH([]sop.Handle{v2})); err != nil {
			add("infra", "update: "+err.Error())
		}
	})
	s.Run()
	if len(vs) > 0 || prevImage == nil {
		return vs, s
	}
	// corrupt the block on disk
	data, _ := os.ReadFile(segFile)
	blk := data[blockOff : blockOff+4096]
	good := append([]byte{}, blk...)
	switch cs.Kind {
	case "bitflip":
		blk[cs.Offset] ^= 1 << uint(cs.Bit)
	case "burst":
		for i := 0; i < cs.Len && cs.Offset+i < 4096; i++ {
			blk[cs.Offset+i] ^= 0xA5
		}
	case "zerotail":
		for i := cs.Offset; i < 4096; i++ {
			blk[i] = 0
		}
	}
	if string(good) == string(blk) || isZero(blk) {
		return nil, s // corruption was a no-op or produced the (valid by design) all-zero block
	}
	os.WriteFile(segFile, data, 0o644)
	corrupted := append([]byte{}, blk...)
	cowPath := fmt.Sprintf("%s_%d.cow", strings.TrimSuffix(segFile, ".reg"), blockOff)
	validBackup := false
	switch cs.Cow {
	case "stale-valid":
		os.WriteFile(cowPath, prevImage, 0o644)
		validBackup = true
	case "badcrc":
		bad := append([]byte{}, prevImage...)
		bad[100] ^= 0xFF
		os.WriteFile(cowPath, bad, 0o644)
	case "empty":
		os.WriteFile(cowPath, nil, 0o644)
	}
	e.w.Restart()
	ids := make([]sop.UUID, b.N)
	for k := range ids {
		ids[k] = rc.poolID(k)
	}
	s.Spawn("victim", 0, func(*sim.Task) {
		for _, op := range b.Ops {
			mk := e.registry
			if op == "getro" {
				mk = e.registryRO
			}
			reg, closeReg, err := mk(ctx)
			if err != nil {
				add("infra", err.Error())
				return
			}
			var opErr error
			var got []sop.Handle
			k := b.Target
			switch op {
			case "get", "getro":
				res, err := reg.Get(ctx, e.payloadID(ids))
				opErr = err
				if len(res) > 0 {
					got = res[0].IDs
				}
			case "update":
				opErr = reg.Update(ctx, e.payloadH([]sop.Handle{handleFor(rc, k, 3)}))
			case "updnl":
				opErr = reg.UpdateNoLocks(ctx, false, e.payloadH([]sop.Handle{handleFor(rc, k, 3)}))
			case "remove":
				opErr = reg.Remove(ctx, e.payloadID([]sop.UUID{ids[(k+1)%b.N]}))
			}
			closeReg()
			now, _ := os.ReadFile(segFile)
			cur := now[blockOff : blockOff+4096]
			if validBackup {
				// the backup is restored: the previous valid image must be what is served
				if (op == "get" || op == "getro") && opErr == nil {
					for _, h := range got {
						idx := -1
						for j := range ids {
							if ids[j] == h.LogicalID {
								idx = j
							}
						}
						switch {
						case idx < 0:
							add("restored-backup-wrong/"+op, fmt.Sprintf("valid backup present; %s returned a handle with an id that was never written: %+v", op, h))
						case h != v1[idx] && !(idx == k && h == v2):
							add("restored-backup-wrong/"+op, fmt.Sprintf("valid backup present; %s returned %+v for handle #%d, its valid images are %+v (and %+v for the updated one)", op, h, idx, v1[idx], v2))
						}
					}
				}
				return
			}
			if opErr == nil {
				add("corruption-not-reported/"+strings.TrimSuffix(op, "ro"), fmt.Sprintf("block with wrong checksum (%s at byte %d) and no valid backup (%s): %s returned no error; handles returned: %d", cs.Kind, cs.Offset, cs.Cow, op, len(got)))
			}
			if string(cur) != string(corrupted) {
				add("corrupt-block-overwritten/"+op, fmt.Sprintf("block with wrong checksum (%s at byte %d) and no valid backup (%s): %s changed the block on disk (err=%v)", cs.Kind, cs.Offset, cs.Cow, op, opErr))
				return
			}
			e.w.Restart()
		}
	})
	s.Run()
	for _, t := range s.Tasks() {
		if t.Panic != nil {
			add(panicClass(t.PanicSt), fmt.Sprintf("%s panicked: %v", t.Name, t.Panic))
		}
	}
	return vs, s
}

func runC23(u *Unit) {
	r := u.Rng
	base := &blockCase{Seed: r.Uint64(), Mod: pick(r, 1, 250), N: pick(r, 3, 20, 66)}
	base.Target = r.IntN(base.N)
	var specs []corruptSpec
	// single-bit flips on a stride covering all 66 slots and the checksum
	stride := 62
	if u.Tier == "thorough" {
		stride = 16
	}
	for off := r.IntN(stride); off < 4096; off += stride {
		specs = append(specs, corruptSpec{Kind: "bitflip", Offset: off, Bit: r.IntN(8)})
	}
	for _, off := range []int{4092, 4093, 4094, 4095} {
		specs = append(specs, corruptSpec{Kind: "bitflip", Offset: off, Bit: r.IntN(8)})
	}
	for i := 0; i < 6; i++ {
		specs = append(specs, corruptSpec{Kind: "burst", Offset: r.IntN(4090), Len: 2 + r.IntN(63)})
	}
	for _, off := range []int{1, 62, 512, 2048, 4000} {
		specs = append(specs, corruptSpec{Kind: "zerotail", Offset: off})
	}
	n := 0
	for _, sp := range specs {
		for _, cow := range []string{"none", "stale-valid", "badcrc", "empty"} {
			for _, ops := range [][]string{{"get"}, {"getro"}, {"update"}, {"updnl"}, {"remove"}} {
				if u.Tier != "thorough" && n%3 != u.Index%3 {
					n++
					continue
				}
				n++
				cs := *base
				sp2 := sp
				sp2.Cow = cow
				cs.Corrupt = &sp2
				cs.Ops = ops
				curCase = &cs
				vs, s := runCorruptCase(&cs)
				u.Rep.Evals++
				if s != nil {
					u.Rep.Ops += s.Seq()
					u.Rep.Steps += s.Steps()
					u.Rep.Hashes = append(u.Rep.Hashes, s.LogHash())
				}
				u.Rep.Sigs = append(u.Rep.Sigs, fmt.Sprintf("%x", fnv(string(mustJSON(&cs)))))
				for _, v := range vs {
					if strings.HasPrefix(v.Class, "infra") {
						u.Rep.Infra = v.Msg
						return
					}
					v.Payload = mustJSON(&cs)
					u.Rep.Violations = append(u.Rep.Violations, v)
				}
			}
		}
	}
	u.Rep.Exhaustive = u.Tier == "thorough"
	if u.Index < 3 {
		u.Rep.Samples = append(u.Rep.Samples, map[string]any{"case": base, "corruptions": len(specs), "runs": n})
	}
}

func init() {
	Register(&CheckDef{ID: "C22", Level: "fault_enumeration",
		Rule:    "each unit = one populated registry block (2-66 handles, hash modulus 1/2/250) and one writer updating one handle through fs.NewRegistry.UpdateNoLocks, with 0-2 concurrent reader tasks looking up all ids of that block from the segment file; a profiling run lists the writer's durable mutations (backup file write, block write, backup removal); every mutation x {crash before, crash after, torn at every 512-byte boundary and 6 arbitrary lengths for the block write, 4 lengths for the backup file} is executed (3 schedules each when readers are present). Afterwards: restart, every id is looked up through a new registry: each handle must equal its old image or (the updated one) its new image; readers must never have returned anything else; the raw block must have a valid checksum. distinct_nontrivial = distinct (block, mutation, crash variant, schedule) whose crash fired",
		Exhaust: "per sampled block: every durable mutation of the writer x crash variants listed",
		Units: func(tier string) int {
			if tier == "thorough" {
				return 320
			}
			return 32
		},
		Run: runC22, Replay: replayBlock(true),
		Real:   []string{"fs.registryOnDisk/hashmap block write path incl. copy-on-write backup and restore-on-read", "cache L1/L2"},
		Stub:   []string{"O_DIRECT (buffered I/O on tmpfs)", "concurrent block reads/writes are atomic (4 KiB aligned I/O); tearing happens only with the crash", "process boundary (readers are tasks of other simulated nodes)"},
		Assume: []string{"non-crash block I/O is atomic", "sampling over blocks, exhaustive over the listed crash variants per block"}})
	Register(&CheckDef{ID: "C23", Level: "fault_enumeration",
		Rule:    "each unit = one written registry block (3-66 handles, updated once so that a previous valid image exists); corruptions: single-bit flips on a stride over all slots plus each checksum byte, bursts of 2-64 bytes, zeroed tails; x backup file variants {none, valid image of the previous state, image with wrong checksum, empty file} x operation {Get, Get through a read-only registry, Update, UpdateNoLocks, Remove} through a fresh registry with empty caches. Without a valid backup every operation must return an error and leave the block bytes untouched. distinct_nontrivial = distinct (block, corruption, backup variant, operation)",
		Exhaust: "thorough tier: every bit-flip position on a stride of 16 bytes x 4 backup variants x 5 operations per sampled block; quick tier: stride 62, one third of the product per unit",
		Units: func(tier string) int {
			if tier == "thorough" {
				return 64
			}
			return 16
		},
		Run: runC23, Replay: replayBlock(false), UnitLimit: 1200e9,
		Real:   []string{"fs.hashmap readAndRestoreBlock / unmarshalData (CRC) / COW handling, fs.registryOnDisk Get/Update/UpdateNoLocks/Remove"},
		Stub:   []string{"O_DIRECT (buffered I/O on tmpfs)"},
		Assume: []string{"all-zero blocks are valid by design and skipped"}})
}
