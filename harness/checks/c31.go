package checks

import (
	"context"
	"fmt"
	"io"
	"math/rand/v2"
	"sort"
	"strings"

	"github.com/sharedcode/sop"
	"github.com/sharedcode/sop/infs"
	sd "github.com/sharedcode/sop/streamingdata"
	"verif/harness/sim"
)

// C31: streamed values read back exactly as written.
//
// A streaming data store (chunked large values over the transactional B-tree, value blobs on
// the simulated disk) is driven by seeded programs of add / update / upsert / remove over a few
// keys, each entry a sequence of values of sizes from one byte to a megabyte; every step is its
// own transaction, processes restart in between. After every step each entry is decoded to the
// end and compared with the model, and the chunk index space of removed entries is probed.

type c31Val struct {
	N int    `json:"n"`
	S string `json:"s"`
}

func c31Value(key, ver, i, size int) c31Val {
	pat := fmt.Sprintf("<%d.%d.%d>", key, ver, i)
	var b strings.Builder
	for b.Len() < size {
		b.WriteString(pat)
	}
	return c31Val{N: i, S: b.String()[:size]}
}

var c31Sizes = []int{1, 7, 100, 400, 511, 512, 513, 1000, 4096, 5000, 70000, 1 << 20}

func genC31(r *rand.Rand, tier string) *progCase {
	c := &progCase{Seed: r.Uint64(), Policy: "seq", P: map[string]int{"slot": pick(r, 50, 64, 128), "vmode": pick(r, 1, 1, 2, 3), "keys": pick(r, 1, 2, 4)}}
	exists := map[int]bool{}
	n := 2 + r.IntN(7)
	big := 0
	for i := 0; i < n; i++ {
		key := 1 + r.IntN(c.P["keys"])
		sizes := func() string {
			k := 1 + r.IntN(5) // (an entry is its chunks: an empty sequence creates nothing, so it is not generated)
			var out []string
			for j := 0; j < k; j++ {
				sz := pick(r, c31Sizes...)
				if sz >= 70000 {
					big++
					if big > 2 {
						sz = 513
					}
				}
				out = append(out, fmt.Sprint(sz))
			}
			return strings.Join(out, ",")
		}
		switch x := r.IntN(10); {
		case !exists[key] && x < 6:
			c.Steps = append(c.Steps, PStep{K: pick(r, "add", "add", "addif", "upsert"), Key: key, S: sizes()})
			exists[key] = true
		case exists[key] && x < 6:
			c.Steps = append(c.Steps, PStep{K: pick(r, "update", "update", "upsert", "updcur"), Key: key, S: sizes()})
		case exists[key] && x < 8:
			c.Steps = append(c.Steps, PStep{K: pick(r, "remove", "rmcur"), Key: key})
			delete(exists, key)
		case x == 8:
			c.Steps = append(c.Steps, PStep{K: "restart"})
		default:
			// operations on an entry that does not exist must change nothing
			c.Steps = append(c.Steps, PStep{K: pick(r, "update", "remove"), Key: key, S: "10"})
			if exists[key] {
				if c.Steps[len(c.Steps)-1].K == "remove" {
					delete(exists, key)
				}
			}
		}
	}
	c.Steps = append(c.Steps, PStep{K: "restart"})
	return c
}

func runC31(c *progCase) ([]Violation, *progStats) {
	st := &progStats{Probes: map[string]int{}}
	e, err := progEnv(c)
	if err != nil {
		st.InfraErr = err.Error()
		return nil, st
	}
	defer e.Close()
	st.S = e.S
	so := storeOptions(StoreSpec{Name: "stream", Slot: c.P["slot"], Unique: true, ValueMode: c.P["vmode"]})
	if so.SlotLength < sd.MinimumStreamingStoreSlotLength {
		so.SlotLength = sd.MinimumStreamingStoreSlotLength
	}
	model := map[int][]c31Val{}
	maxChunks := map[int]int{}
	ver := 0
	var vs []Violation
	var hist []string
	report := func(class, msg string) {
		vs = append(vs, Violation{Class: class, Msg: msg + "\nhistory: " + strings.Join(hist, " | ")})
	}
	created := false
	sizeTag := func(vals []c31Val) string {
		mx := 0
		for _, v := range vals {
			if len(v.S) > mx {
				mx = len(v.S)
			}
		}
		switch {
		case mx > 4096:
			return "large"
		case mx >= 512:
			return "over-512"
		}
		return "small"
	}
	// open returns the store inside a new transaction
	open := func(ctx context.Context, mode string) (sop.Transaction, *sd.StreamingDataStore[int], error) {
		tr, err := infs.NewTransaction(ctx, e.txOptions(mode, 0))
		if err != nil {
			return nil, nil, err
		}
		if err := tr.Begin(ctx); err != nil {
			return nil, nil, err
		}
		var s *sd.StreamingDataStore[int]
		if !created {
			s, err = infs.NewStreamingDataStore[int](ctx, so, tr, nil)
		} else {
			s, err = infs.OpenStreamingDataStore[int](ctx, so.Name, tr, nil)
		}
		if err != nil {
			if tr.HasBegun() {
				tr.Rollback(ctx)
			}
			return nil, nil, err
		}
		return tr, s, nil
	}
	verify := func(step int, where string) bool {
		ok := true
		e.runTasks([]string{fmt.Sprintf("verify%d", step)}, []func(*sim.Task){func(t *sim.Task) {
			ctx := context.Background()
			tr, s, err := open(ctx, "r")
			if err != nil {
				report("read-open-failed", fmt.Sprintf("step %d (%s): %v", step, where, err))
				ok = false
				return
			}
			defer tr.Rollback(ctx)
			var keys []int
			for k := 1; k <= c.P["keys"]; k++ {
				keys = append(keys, k)
			}
			sort.Ints(keys)
			for _, k := range keys {
				want, present := model[k]
				found, err := s.FindOne(ctx, k)
				if err != nil {
					report("find-error", fmt.Sprintf("step %d (%s): FindOne(%d): %v", step, where, k, err))
					ok = false
					continue
				}
				if found != present {
					cls := "removed-entry-still-found"
					if present {
						cls = "entry-not-found"
					}
					report(cls+"/"+where, fmt.Sprintf("step %d (%s): FindOne(%d)=%v, the model says present=%v", step, where, k, found, present))
					ok = false
					continue
				}
				if !present {
					// no chunk of a removed entry may be left
					for ci := 0; ci <= maxChunks[k]+2; ci++ {
						if f, _ := s.FindChunk(ctx, k, ci); f {
							report("leftover-chunk-after-remove/"+where, fmt.Sprintf("step %d (%s): entry %d was removed but chunk #%d is still there", step, where, k, ci))
							ok = false
							break
						}
					}
					continue
				}
				dec, err := s.GetCurrentValue(ctx)
				if err != nil || dec == nil {
					report("read-error/"+where, fmt.Sprintf("step %d (%s): GetCurrentValue(%d): %v", step, where, k, err))
					ok = false
					continue
				}
				var got []c31Val
				var derr error
				for i := 0; i < len(want)+8; i++ {
					var v c31Val
					if err := dec.Decode(&v); err != nil {
						if err != io.EOF {
							derr = err
						}
						break
					}
					got = append(got, v)
				}
				same := derr == nil && len(got) == len(want)
				if same {
					for i := range got {
						if got[i] != want[i] {
							same = false
						}
					}
				}
				if !same {
					desc := func(a []c31Val) string {
						var p []string
						for _, v := range a {
							s := v.S
							if len(s) > 12 {
								s = s[:12] + "…"
							}
							p = append(p, fmt.Sprintf("#%d:%dB:%s", v.N, len(v.S), s))
						}
						return "[" + strings.Join(p, " ") + "]"
					}
					cls := "values-differ"
					switch {
					case derr != nil:
						cls = "decode-error"
					case len(got) > len(want):
						cls = "extra-values"
					case len(got) < len(want):
						cls = "missing-values"
					}
					report(cls+"/"+sizeTag(want)+"/"+where, fmt.Sprintf("step %d (%s): entry %d decodes to %s (err %v), written %s", step, where, k, desc(got), derr, desc(want)))
					ok = false
				}
			}
		}})
		return ok
	}
	for si, s := range c.Steps {
		if s.K == "restart" {
			e.W.Restart()
			hist = append(hist, "restart")
			if created && !verify(si, "cold") {
				return dedupe(vs), finishProg(e, st, c)
			}
			continue
		}
		ver++
		var vals []c31Val
		if s.S != "" {
			for i, f := range strings.Split(s.S, ",") {
				var sz int
				fmt.Sscanf(f, "%d", &sz)
				vals = append(vals, c31Value(s.Key, ver, i, sz))
			}
		}
		_, present := model[s.Key]
		var opErr, commitErr error
		applied := false
		panics := e.runTasks([]string{fmt.Sprintf("step%d", si)}, []func(*sim.Task){func(t *sim.Task) {
			ctx := context.Background()
			tr, store, err := open(ctx, "w")
			if err != nil {
				opErr = err
				return
			}
			created = true
			encodeAll := func(enc *sd.Encoder[int]) error {
				for _, v := range vals {
					if err := enc.Encode(v); err != nil {
						return err
					}
				}
				return enc.Close()
			}
			switch s.K {
			case "add", "addif", "upsert", "update", "updcur":
				var enc *sd.Encoder[int]
				switch s.K {
				case "add":
					enc, opErr = store.Add(ctx, s.Key)
				case "addif":
					enc, opErr = store.AddIfNotExist(ctx, s.Key)
				case "upsert":
					enc, opErr = store.Upsert(ctx, s.Key)
				case "update":
					enc, opErr = store.Update(ctx, s.Key)
				case "updcur":
					if f, err := store.FindOne(ctx, s.Key); err != nil || !f {
						opErr = err
					} else {
						enc, opErr = store.UpdateCurrentValue(ctx)
					}
				}
				if opErr == nil && enc != nil {
					if opErr = encodeAll(enc); opErr == nil {
						applied = true
					}
				}
			case "remove":
				var okr bool
				okr, opErr = store.Remove(ctx, s.Key)
				applied = okr && opErr == nil
			case "rmcur":
				if f, err := store.FindOne(ctx, s.Key); err != nil || !f {
					opErr = err
				} else {
					var okr bool
					okr, opErr = store.RemoveCurrentItem(ctx)
					applied = okr && opErr == nil
				}
			}
			if opErr != nil {
				if tr.HasBegun() {
					tr.Rollback(ctx)
				}
				return
			}
			commitErr = tr.Commit(ctx)
		}})
		hist = append(hist, fmt.Sprintf("%s(%d,[%s]) applied=%v op=%v commit=%v", s.K, s.Key, s.S, applied, opErr, commitErr))
		if panics[0] != "" {
			report(panicClass(panics[0])+"/"+s.K, panics[0])
			return dedupe(vs), finishProg(e, st, c)
		}
		if opErr != nil || commitErr != nil {
			// no faults are injected: an operation on a fresh entry / existing entry must work
			expectFail := (s.K == "update" || s.K == "updcur") && !present
			if !(expectFail && commitErr == nil) {
				report("operation-failed/"+s.K+"/"+sizeTag(vals), fmt.Sprintf("step %d: %s(%d) failed on a fault-free run: op=%v commit=%v", si, s.K, s.Key, opErr, commitErr))
				return dedupe(vs), finishProg(e, st, c)
			}
		}
		if applied && commitErr == nil {
			switch s.K {
			case "add", "addif", "upsert", "update", "updcur":
				if (s.K == "update" || s.K == "updcur") && !present {
					report("update-of-absent-entry-applied", fmt.Sprintf("step %d: %s(%d) on an entry that does not exist returned an encoder", si, s.K, s.Key))
				}
				model[s.Key] = vals
				if len(vals) > maxChunks[s.Key] {
					maxChunks[s.Key] = len(vals)
				}
				st.Probes["entries_written_"+sizeTag(vals)]++
			case "remove", "rmcur":
				if !present {
					report("remove-of-absent-entry-succeeded", fmt.Sprintf("step %d: %s(%d) on an entry that does not exist returned true", si, s.K, s.Key))
				}
				delete(model, s.Key)
			}
		} else if (s.K == "remove" || s.K == "rmcur") && present && opErr == nil && commitErr == nil {
			report("remove-of-present-entry-returned-false", fmt.Sprintf("step %d: %s(%d) returned false for an entry that exists", si, s.K, s.Key))
		}
		if !verify(si, "warm") {
			return dedupe(vs), finishProg(e, st, c)
		}
	}
	return dedupe(vs), finishProg(e, st, c)
}

func init() {
	pc := &progCheck{id: "C31", perUnit: 6, gen: genC31, run: runC31}
	Register(pc.def("exploration",
		"each evaluation = one streaming data store (values outside the node: separate segment, actively persisted or globally cached; slot length 50-128) and a seeded program of 2-8 steps over 1-4 keys: Add / AddIfNotExist / Upsert / Update / UpdateCurrentValue with 1-5 values of sizes drawn from {1, 7, 100, 400, 511, 512, 513, 1000, 4096, 5000, 70000, 1 MiB} (at most two large ones per program), Remove / RemoveCurrentItem, operations on absent entries, process restarts; every step is one transaction. After every step and after every restart each entry is decoded to the end through the store's json.Decoder and must equal the sequence written last (no missing, extra or repeated values), removed entries must not be found and no chunk index of theirs may exist. distinct_nontrivial = distinct programs",
		func(tier string) int {
			if tier == "thorough" {
				return 800
			}
			return 64
		},
		[]string{"streamingdata writer/reader/encoder/store, infs streaming constructors, B-tree and commit path underneath, value blobs on the simulated disk"},
		[]string{"disk through the simulated file layer; restarts by the simulator", "single client task (the property quantifies over programs; no schedule dimension)"},
		[]string{"encoding/json's Encoder issues one Write per Encode (one chunk per value)", "no faults injected: atomicity of a failed streaming commit is C01/C07's subject", "sampling, not proof"}))
}
