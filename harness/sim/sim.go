// Package sim is the deterministic simulator core: a cooperative scheduler that runs
// exactly one task goroutine at a time, a simulated clock, seeded PRNG streams, a fault
// plan, and an event log. One seed = one exactly repeatable execution.
package sim

import (
	"context"
	"crypto/sha256"
	"encoding/hex"
	"fmt"
	"hash"
	"math/rand/v2"
	"os"
	"runtime"
	"runtime/debug"
	"sort"
	"strings"
	"time"
)

// StuckLimit is the real time a task may run between two yields.
var StuckLimit = 20 * time.Second

// StuckHandler, when set, is called (on the scheduler goroutine) when a task neither yields
// nor finishes within StuckLimit; it must terminate the process.
var StuckHandler func(s *Sim, t *Task, stacks string)

// Epoch is where simulated time starts (well after any real mtime, so that a file whose
// mtime was not fixed up is recognisable).
var Epoch = time.Date(2030, 1, 1, 0, 0, 0, 0, time.UTC)

type taskState int

const (
	stRunnable taskState = iota
	stSleeping
	stDone
	stDead // node crashed, never resumed
)

// Task is one client program executed by real code on its own goroutine.
type Task struct {
	Name    string
	ID      int
	Node    int
	OpCount int // yields made by this task so far
	state   taskState
	wake    time.Time
	sleepCx context.Context
	resume  chan struct{}
	Panic   any
	PanicSt string
	prio    int
	// HoldAt/HoldUntil implement targeted pauses: when OpCount reaches HoldAt the task is
	// not scheduled until the task named HoldUntil is done (or nothing else can run).
	HoldAt    int
	HoldUntil string
	Steps     int
	marks     map[string]int
}

// FaultSpec addresses one fault at one intercepted operation.
type FaultSpec struct {
	Task  string `json:"task,omitempty"`  // task name; "" = global step index
	Op    int    `json:"op"`              // per-task op index (1-based) or global op seq
	Kind  string `json:"kind"`            // err, eio, enospc, eacces, torn, crash, crash_after, stall, lost, miss
	Arg   int64  `json:"arg,omitempty"`   // torn length / stall ms
	Match string `json:"match,omitempty"` // expected "kind target" substring (divergence check)
	Path  bool   `json:"path,omitempty"`  // with Times > 1: the repeats hit later mutations of the SAME target (a file that stays unwritable) instead of the same kind
	After string `json:"after,omitempty"` // when set, Op counts from the task's marker of this name (see Sim.Mark)
	Times int    `json:"times,omitempty"` // sticky: also fail the next Times-1 ops of same kind by that task
}

// Rates drives random fault injection (per intercepted op, by op-kind prefix).
type Rates struct {
	Prefix string
	Kind   string
	P      float64
	Arg    int64
}

// Config of one simulated execution.
type Config struct {
	Seed     uint64
	Policy   string  // "random", "pct", "rr", "seq"
	Sticky   float64 // random walk: probability to keep running the current task
	MaxSteps int
	KeepLog  bool
	Faults   []FaultSpec
	Rates    []Rates
	MaxRand  int // max number of random faults fired per run
	NoLat    bool
}

// Event is one line of the event log.
type Event struct {
	Seq    int
	Now    time.Duration
	Task   string
	Op     int
	Kind   string
	Target string
	Fault  string
}

// Sim is one simulated execution.
type Sim struct {
	Cfg   Config
	now   time.Time
	tasks []*Task
	cur   *Task
	back  chan struct{}
	seq   int // global op sequence
	steps int
	h     hash.Hash
	Log   []Event
	rngs  map[string]*rand.Rand

	deadlines []*deadline

	Fired      []FaultSpec
	FaultCount map[string]int
	OpKinds    map[string]int
	Probes     map[string]int
	Diverged   []string
	Switches   int
	ClockJumps int
	StepCapHit bool
	Deadlock   bool
	schedHash  uint64
	randFired  int
	sticky     map[string]int // task|kindprefix -> remaining sticky failures
	stickyKind map[string]string

	CrashedNodes map[int]bool
	OnCrash      func(node int)
	StripPrefix  []string
	running      bool
	pctChange    map[int]bool
	lastTask     *Task
	hookAfter    func()
	// Trace hook for tests: called at each op (in task goroutine, before parking).
	OnOp    func(t *Task, kind, target string)
	OnStuck func()
}

type deadline struct {
	at     time.Time
	cancel context.CancelCauseFunc
	done   bool
}

// New creates a simulator.
func New(cfg Config) *Sim {
	if cfg.MaxSteps == 0 {
		cfg.MaxSteps = 200000
	}
	if cfg.Policy == "" {
		cfg.Policy = "random"
	}
	if cfg.Sticky == 0 {
		cfg.Sticky = 0.8
	}
	s := &Sim{
		Cfg: cfg, back: make(chan struct{}), h: sha256.New(), rngs: map[string]*rand.Rand{},
		FaultCount: map[string]int{}, OpKinds: map[string]int{}, Probes: map[string]int{},
		CrashedNodes: map[int]bool{}, sticky: map[string]int{}, stickyKind: map[string]string{},
	}
	// start inside the hour at a seed-derived offset so hour-bucket boundaries vary
	off := time.Duration(s.Rng("epoch").IntN(3600)) * time.Second
	s.now = Epoch.Add(off)
	return s
}

// Rng returns the named PRNG sub-stream.
func (s *Sim) Rng(label string) *rand.Rand {
	if r, ok := s.rngs[label]; ok {
		return r
	}
	var h uint64 = 1469598103934665603
	for i := 0; i < len(label); i++ {
		h ^= uint64(label[i])
		h *= 1099511628211
	}
	r := rand.New(rand.NewPCG(s.Cfg.Seed, h))
	s.rngs[label] = r
	return r
}

// Now is the simulated clock.
func (s *Sim) Now() time.Time { return s.now }

// Elapsed is simulated time since the epoch.
func (s *Sim) Elapsed() time.Duration { return s.now.Sub(Epoch) }

// Advance moves the simulated clock (only legal outside Run or from the running task).
func (s *Sim) Advance(d time.Duration) {
	s.now = s.now.Add(d)
	s.fireDeadlines()
}

// Cur returns the running task (nil in privileged mode).
func (s *Sim) Cur() *Task { return s.cur }

// InTask reports whether a task is running under the scheduler.
func (s *Sim) InTask() bool { return s.cur != nil }

// Probe counts a "this rare condition was hit" event.
func (s *Sim) Probe(name string) { s.Probes[name]++ }

// Context returns a context that is cancelled when simulated time passes d from now
// (d <= 0: no deadline).
func (s *Sim) Context(d time.Duration) (context.Context, context.CancelFunc) {
	ctx, cancel := context.WithCancelCause(context.Background())
	if d > 0 {
		dl := &deadline{at: s.now.Add(d), cancel: cancel}
		s.deadlines = append(s.deadlines, dl)
	}
	return ctx, func() { cancel(context.Canceled) }
}

func (s *Sim) fireDeadlines() {
	for _, d := range s.deadlines {
		if !d.done && !s.now.Before(d.at) {
			d.done = true
			d.cancel(context.DeadlineExceeded)
		}
	}
}

// Spawn registers a task; it starts running when Run schedules it.
func (s *Sim) Spawn(name string, node int, fn func(t *Task)) *Task {
	t := &Task{Name: name, ID: len(s.tasks), Node: node, resume: make(chan struct{}), HoldAt: -1}
	s.tasks = append(s.tasks, t)
	go func() {
		<-t.resume
		defer func() {
			if r := recover(); r != nil {
				t.Panic = r
				t.PanicSt = string(debug.Stack())
			}
			t.state = stDone
			s.back <- struct{}{}
		}()
		fn(t)
	}()
	return t
}

func (s *Sim) logEvent(t *Task, kind, target, fault string) {
	for _, p := range s.StripPrefix {
		target = strings.ReplaceAll(target, p, "")
	}
	name := "-"
	op := 0
	if t != nil {
		name, op = t.Name, t.OpCount
	}
	fmt.Fprintf(s.h, "%d|%d|%s|%d|%s|%s|%s\n", s.seq, s.now.Sub(Epoch), name, op, kind, target, fault)
	if s.Cfg.KeepLog {
		s.Log = append(s.Log, Event{s.seq, s.now.Sub(Epoch), name, op, kind, target, fault})
	}
}

// Mark records that the running task passed a named point (without yielding); faults can be
// addressed relative to it (FaultSpec.After). A repeated marker moves the point.
func (s *Sim) Mark(name string) {
	if t := s.cur; t != nil {
		if t.marks == nil {
			t.marks = map[string]int{}
		}
		t.marks[name] = t.OpCount
	}
}

// Note adds a line to the event log without yielding (workload markers, results).
func (s *Sim) Note(kind, text string) {
	s.logEvent(s.cur, "note."+kind, text, "")
}

// LogHash is the hash of the event log so far.
func (s *Sim) LogHash() string {
	return hex.EncodeToString(s.h.Sum(nil))[:16]
}

func latencyFor(kind string, r *rand.Rand) time.Duration {
	switch {
	case strings.HasPrefix(kind, "l2."), strings.HasPrefix(kind, "redis."):
		return time.Duration(50+r.IntN(450)) * time.Microsecond
	case strings.HasPrefix(kind, "mark"):
		return time.Microsecond
	default:
		return time.Duration(200+r.IntN(4800)) * time.Microsecond
	}
}

// Op is called by every interceptor before it performs the real operation. It logs the
// operation, advances the clock, consults the fault plan, and parks the task until the
// scheduler resumes it. In privileged mode (no task running) it returns nil at once.
func (s *Sim) Op(kind, target string) *FaultSpec {
	t := s.cur
	if t == nil {
		return nil
	}
	s.seq++
	t.OpCount++
	s.OpKinds[kind]++
	if !s.Cfg.NoLat {
		s.now = s.now.Add(latencyFor(kind, s.Rng("latency")))
	}
	f := s.pickFault(t, kind, target)
	fs := ""
	if f != nil {
		fs = fmt.Sprintf("%s:%d", f.Kind, f.Arg)
		s.FaultCount[f.Kind]++
	}
	s.logEvent(t, kind, target, fs)
	if s.OnOp != nil {
		s.OnOp(t, kind, target)
	}
	if f != nil && f.Kind == "crash" {
		s.CrashNode(t.Node) // never returns
	}
	if f != nil && f.Kind == "stall" {
		t.state = stSleeping
		t.wake = s.now.Add(time.Duration(f.Arg) * time.Millisecond)
		t.sleepCx = nil
	}
	s.park(t)
	return f
}

func (s *Sim) park(t *Task) {
	s.back <- struct{}{}
	<-t.resume
}

// CrashNode kills the node of the running task: none of its tasks is ever scheduled again.
// When called from a task of that node it does not return.
func (s *Sim) CrashNode(node int) {
	s.CrashedNodes[node] = true
	for _, t := range s.tasks {
		if t.Node == node && t.state != stDone {
			t.state = stDead
		}
	}
	s.logEvent(s.cur, "crash", fmt.Sprintf("node%d", node), "")
	if s.OnCrash != nil {
		s.OnCrash(node)
	}
	if s.cur != nil && s.cur.Node == node {
		s.back <- struct{}{}
		select {} // parked for ever, like a killed process
	}
}

// Sleep parks the running task until simulated time has advanced by d or ctx is done.
func (s *Sim) Sleep(ctx context.Context, d time.Duration) {
	if d <= 0 {
		return
	}
	t := s.cur
	if t == nil {
		s.Advance(d)
		return
	}
	if ctx != nil && ctx.Err() != nil {
		return
	}
	s.seq++
	t.OpCount++
	s.OpKinds["sleep"]++
	s.logEvent(t, "sleep", d.String(), "")
	t.state = stSleeping
	t.wake = s.now.Add(d)
	t.sleepCx = ctx
	s.park(t)
}

func (s *Sim) pickFault(t *Task, kind, target string) *FaultSpec {
	// sticky continuation
	if n := s.sticky[t.Name+"|@"+target]; n > 0 && IsMutation(kind) {
		// this path stays unwritable for the task (FaultSpec.Path)
		k := t.Name + "|@" + target
		s.sticky[k] = n - 1
		return &FaultSpec{Task: t.Name, Op: t.OpCount, Kind: s.stickyKind[k]}
	}
	for k, n := range s.sticky {
		if n > 0 && !strings.Contains(k, "|@") && strings.HasPrefix(k, t.Name+"|") && strings.HasPrefix(kind, strings.TrimPrefix(k, t.Name+"|")) {
			s.sticky[k] = n - 1
			return &FaultSpec{Task: t.Name, Op: t.OpCount, Kind: s.stickyKind[k]}
		}
	}
	for i := range s.Cfg.Faults {
		f := &s.Cfg.Faults[i]
		hit := false
		if f.Task == "" {
			hit = f.Op == s.seq
		} else if f.After != "" {
			// relative addressing: the Op-th operation after the task passed the named marker
			base, ok := t.marks[f.After]
			hit = f.Task == t.Name && ok && f.Op == t.OpCount-base
		} else {
			hit = f.Task == t.Name && f.Op == t.OpCount
		}
		if !hit {
			continue
		}
		if f.Match != "" && !strings.Contains(kind+" "+target, f.Match) {
			s.Diverged = append(s.Diverged, fmt.Sprintf("fault %s@%s#%d expected %q got %q", f.Kind, f.Task, f.Op, f.Match, kind+" "+target))
			continue
		}
		if f.Times > 1 && f.Path {
			k := t.Name + "|@" + target
			s.sticky[k] = f.Times - 1
			s.stickyKind[k] = f.Kind
		} else if f.Times > 1 {
			k := t.Name + "|" + kindClass(kind)
			s.sticky[k] = f.Times - 1
			s.stickyKind[k] = f.Kind
		}
		cp := *f
		s.Fired = append(s.Fired, cp)
		return &cp
	}
	if len(s.Cfg.Rates) > 0 && (s.Cfg.MaxRand == 0 || s.randFired < s.Cfg.MaxRand) {
		r := s.Rng("faults")
		for _, rt := range s.Cfg.Rates {
			if !strings.HasPrefix(kind, rt.Prefix) {
				continue
			}
			if r.Float64() < rt.P {
				s.randFired++
				f := FaultSpec{Task: t.Name, Op: t.OpCount, Kind: rt.Kind, Arg: rt.Arg, Match: kind}
				s.Fired = append(s.Fired, f)
				return &f
			}
		}
	}
	return nil
}

func kindClass(kind string) string {
	if i := strings.IndexByte(kind, '.'); i > 0 {
		return kind[:i+1]
	}
	return kind
}

// WaitDone parks the running task until the named task has finished (or nothing else can run).
func (s *Sim) WaitDone(name string) {
	t := s.cur
	if t == nil || s.TaskDone(name) {
		return
	}
	t.HoldAt = t.OpCount
	t.HoldUntil = name
	s.Op("mark.wait", name)
	t.HoldAt = -1
}

// TaskDone reports whether the named task has finished (or died).
func (s *Sim) TaskDone(name string) bool {
	for _, t := range s.tasks {
		if t.Name == name {
			return t.state == stDone || t.state == stDead
		}
	}
	return true
}

// Tasks returns the tasks spawned so far.
func (s *Sim) Tasks() []*Task { return s.tasks }

// Alive reports whether a task is neither finished nor dead.
func (t *Task) Alive() bool { return t.state != stDone && t.state != stDead }

// Dead reports whether the task's node crashed before it finished.
func (t *Task) Dead() bool { return t.state == stDead }

// Run schedules tasks until all are done/dead, the step cap is hit, or nothing can run.
func (s *Sim) Run() {
	s.running = true
	defer func() { s.running = false; s.cur = nil }()
	sched := s.Rng("schedule")
	if s.Cfg.Policy == "pct" {
		// random priorities, up to 3 change points
		for _, t := range s.tasks {
			if t.prio == 0 {
				t.prio = 1 + sched.IntN(1000)
			}
		}
		s.pctChange = map[int]bool{}
		for i := 0; i < 3; i++ {
			s.pctChange[1+sched.IntN(400)] = true
		}
	}
	for {
		s.fireDeadlines()
		var runnable []*Task
		var sleepers []*Task
		held := []*Task{}
		for _, t := range s.tasks {
			switch t.state {
			case stSleeping:
				if !s.now.Before(t.wake) || (t.sleepCx != nil && t.sleepCx.Err() != nil) {
					t.state = stRunnable
				} else {
					sleepers = append(sleepers, t)
					continue
				}
				fallthrough
			case stRunnable:
				if t.HoldAt >= 0 && t.OpCount >= t.HoldAt && t.HoldUntil != "" && !s.TaskDone(t.HoldUntil) {
					held = append(held, t)
					continue
				}
				runnable = append(runnable, t)
			}
		}
		if len(runnable) == 0 && len(held) > 0 && len(sleepers) == 0 {
			// whoever they wait for cannot run either (and nobody is merely asleep): release the holds
			for _, t := range held {
				t.HoldAt = -1
			}
			runnable = held
		}
		if len(runnable) == 0 {
			if len(sleepers) == 0 {
				return
			}
			// jump the clock to the earliest wake-up or deadline
			next := sleepers[0].wake
			for _, t := range sleepers {
				if t.wake.Before(next) {
					next = t.wake
				}
			}
			for _, d := range s.deadlines {
				if !d.done && d.at.After(s.now) && d.at.Before(next) {
					next = d.at
				}
			}
			if next.After(s.now) {
				s.now = next
				s.ClockJumps++
			}
			continue
		}
		if s.steps >= s.Cfg.MaxSteps {
			s.StepCapHit = true
			return
		}
		s.steps++
		t := s.choose(runnable, sched)
		if s.lastTask != nil && s.lastTask != t {
			s.Switches++
			s.schedHash = s.schedHash*1099511628211 ^ uint64(t.ID+1)*2654435761 ^ uint64(t.OpCount)
		}
		s.lastTask = t
		s.cur = t
		t.Steps++
		t.resume <- struct{}{}
		select {
		case <-s.back:
		case <-time.After(StuckLimit):
			// a task neither yielded nor finished: it blocks on something the simulator does not
			// control (or spins). This is an infrastructure failure, never a verdict.
			buf := make([]byte, 1<<20)
			n := runtime.Stack(buf, true)
			if StuckHandler != nil {
				StuckHandler(s, t, string(buf[:n])) // does not return
			}
			fmt.Fprintf(os.Stderr, "SIM-STUCK: task %s (op %d) did not yield within %v; seed %d\n%s\n", t.Name, t.OpCount, StuckLimit, s.Cfg.Seed, buf[:n])
			os.Exit(3)
		}
		s.cur = nil
	}
}

func (s *Sim) choose(runnable []*Task, r *rand.Rand) *Task {
	if len(runnable) == 1 {
		return runnable[0]
	}
	switch s.Cfg.Policy {
	case "seq":
		return runnable[0]
	case "rr":
		// next task id after the last one
		if s.lastTask != nil {
			for _, t := range runnable {
				if t.ID > s.lastTask.ID {
					return t
				}
			}
		}
		return runnable[0]
	case "pct":
		if s.pctChange[s.steps] {
			// demote the highest-priority runnable task
			sort.Slice(runnable, func(i, j int) bool { return runnable[i].prio > runnable[j].prio })
			runnable[0].prio = -s.steps
		}
		best := runnable[0]
		for _, t := range runnable {
			if t.prio > best.prio {
				best = t
			}
		}
		return best
	default:
		if s.lastTask != nil && r.Float64() < s.Cfg.Sticky {
			for _, t := range runnable {
				if t == s.lastTask {
					return t
				}
			}
		}
		return runnable[r.IntN(len(runnable))]
	}
}

// SchedHash identifies the interleaving (sequence of context switches).
func (s *Sim) SchedHash() uint64 { return s.schedHash }

// Steps returns the number of scheduler steps executed.
func (s *Sim) Steps() int { return s.steps }

// Perm returns a PRNG-chosen permutation of 0..n-1 from the "maporder" stream.
func (s *Sim) Perm(n int) []int {
	return s.Rng("maporder").Perm(n)
}

// Seq is the global operation sequence number (event stamp for histories).
func (s *Sim) Seq() int { return s.seq }
