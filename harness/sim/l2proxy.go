package sim

import (
	"context"
	"encoding/json"
	"errors"
	"fmt"
	"os"
	"strings"
	"time"

	"github.com/sharedcode/sop"
)

var debugL2 = os.Getenv("VERIF_DEBUG") != ""

// ErrCache is the error returned by an injected cache failure.
var ErrCache = errors.New("sim: injected cache failure")

// L2Proxy wraps a real sop.L2Cache; every method that would be a network round trip to a
// cache/lock service is a yield and fault point.
type L2Proxy struct {
	S     *Sim
	Inner sop.L2Cache
	Node  int
	// OnLock, when set, is told about every lock-related call result (for lock oracles).
	OnLock func(op string, keys []*sop.LockKey, names []string, ok bool, err error)
}

func keysOf(lk []*sop.LockKey) string {
	var b strings.Builder
	for i, k := range lk {
		if i > 0 {
			b.WriteByte(',')
		}
		b.WriteString(k.Key)
	}
	return b.String()
}

func (p *L2Proxy) fault(kind, target string) (f *FaultSpec, err error) {
	f = p.S.Op(kind, target)
	if f == nil {
		return nil, nil
	}
	switch f.Kind {
	case "err", "eio":
		return f, ErrCache
	}
	return f, nil
}

func (p *L2Proxy) GetType() sop.L2CacheType { return p.Inner.GetType() }

func (p *L2Proxy) FormatLockKey(k string) string { return p.Inner.FormatLockKey(k) }
func (p *L2Proxy) CreateLockKeys(keys []string) []*sop.LockKey {
	return p.Inner.CreateLockKeys(keys)
}
func (p *L2Proxy) CreateLockKeysForIDs(keys []sop.Tuple[string, sop.UUID]) []*sop.LockKey {
	return p.Inner.CreateLockKeysForIDs(keys)
}

func (p *L2Proxy) IsLockedTTL(ctx context.Context, d time.Duration, lk []*sop.LockKey) (bool, error) {
	if _, err := p.fault("l2.IsLockedTTL", keysOf(lk)); err != nil {
		return false, err
	}
	ok, err := p.Inner.IsLockedTTL(ctx, d, lk)
	if p.OnLock != nil {
		p.OnLock("IsLockedTTL", lk, nil, ok, err)
	}
	return ok, err
}

func (p *L2Proxy) Lock(ctx context.Context, d time.Duration, lk []*sop.LockKey) (bool, sop.UUID, error) {
	if _, err := p.fault("l2.Lock", keysOf(lk)); err != nil {
		return false, sop.NilUUID, err
	}
	ok, id, err := p.Inner.Lock(ctx, d, lk)
	if p.OnLock != nil {
		p.OnLock("Lock", lk, nil, ok, err)
	}
	return ok, id, err
}

func (p *L2Proxy) DualLock(ctx context.Context, d time.Duration, lk []*sop.LockKey) (bool, sop.UUID, error) {
	if _, err := p.fault("l2.DualLock", keysOf(lk)); err != nil {
		return false, sop.NilUUID, err
	}
	ok, id, err := p.Inner.DualLock(ctx, d, lk)
	if p.OnLock != nil {
		p.OnLock("DualLock", lk, nil, ok, err)
	}
	return ok, id, err
}

func (p *L2Proxy) IsLocked(ctx context.Context, lk []*sop.LockKey) (bool, error) {
	if _, err := p.fault("l2.IsLocked", keysOf(lk)); err != nil {
		return false, err
	}
	ok, err := p.Inner.IsLocked(ctx, lk)
	if p.OnLock != nil {
		p.OnLock("IsLocked", lk, nil, ok, err)
	}
	return ok, err
}

func (p *L2Proxy) IsLockedByOthers(ctx context.Context, names []string) (bool, error) {
	if _, err := p.fault("l2.IsLockedByOthers", strings.Join(names, ",")); err != nil {
		return false, err
	}
	ok, err := p.Inner.IsLockedByOthers(ctx, names)
	if p.OnLock != nil {
		p.OnLock("IsLockedByOthers", nil, names, ok, err)
	}
	return ok, err
}

func (p *L2Proxy) IsLockedByOthersTTL(ctx context.Context, names []string, d time.Duration) (bool, error) {
	if _, err := p.fault("l2.IsLockedByOthersTTL", strings.Join(names, ",")); err != nil {
		return false, err
	}
	ok, err := p.Inner.IsLockedByOthersTTL(ctx, names, d)
	if p.OnLock != nil {
		p.OnLock("IsLockedByOthersTTL", nil, names, ok, err)
	}
	return ok, err
}

func (p *L2Proxy) Unlock(ctx context.Context, lk []*sop.LockKey) error {
	if _, err := p.fault("l2.Unlock", keysOf(lk)); err != nil {
		return err
	}
	err := p.Inner.Unlock(ctx, lk)
	if p.OnLock != nil {
		p.OnLock("Unlock", lk, nil, err == nil, err)
	}
	return err
}

func (p *L2Proxy) Set(ctx context.Context, key string, value string, exp time.Duration) error {
	if _, err := p.fault("l2.Set", key); err != nil {
		return err
	}
	return p.Inner.Set(ctx, key, value, exp)
}

func (p *L2Proxy) lost(ctx context.Context, f *FaultSpec, keys ...string) bool {
	if f != nil && (f.Kind == "lost" || f.Kind == "miss") {
		if f.Kind == "lost" {
			p.Inner.Delete(ctx, keys)
		}
		return true
	}
	return false
}

func (p *L2Proxy) Get(ctx context.Context, key string) (bool, string, error) {
	f, err := p.fault("l2.Get", key)
	if err != nil {
		return false, "", err
	}
	if p.lost(ctx, f, key) {
		return false, "", nil
	}
	return p.Inner.Get(ctx, key)
}

func (p *L2Proxy) GetEx(ctx context.Context, key string, exp time.Duration) (bool, string, error) {
	f, err := p.fault("l2.GetEx", key)
	if err != nil {
		return false, "", err
	}
	if p.lost(ctx, f, key) {
		return false, "", nil
	}
	return p.Inner.GetEx(ctx, key, exp)
}

func (p *L2Proxy) IsRestarted(ctx context.Context) bool {
	p.S.Op("l2.IsRestarted", "")
	return p.Inner.IsRestarted(ctx)
}

func (p *L2Proxy) SetStruct(ctx context.Context, key string, value interface{}, exp time.Duration) error {
	if _, err := p.fault("l2.SetStruct", key); err != nil {
		return err
	}
	if debugL2 && strings.Contains(key, ":st") {
		name := "-"
		if p.S.Cur() != nil {
			name = p.S.Cur().Name
		}
		b, _ := json.Marshal(value)
		fmt.Fprintf(os.Stderr, "DEBUG SetStruct seq=%d task=%s key=%s value=%.200s\n", p.S.Seq(), name, key, b)
	}
	return p.Inner.SetStruct(ctx, key, value, exp)
}

func (p *L2Proxy) SetStructs(ctx context.Context, keys []string, values []interface{}, exp time.Duration) error {
	if _, err := p.fault("l2.SetStructs", strings.Join(keys, ",")); err != nil {
		return err
	}
	return p.Inner.SetStructs(ctx, keys, values, exp)
}

func (p *L2Proxy) GetStruct(ctx context.Context, key string, target interface{}) (bool, error) {
	f, err := p.fault("l2.GetStruct", key)
	if err != nil {
		return false, err
	}
	if p.lost(ctx, f, key) {
		return false, nil
	}
	return p.Inner.GetStruct(ctx, key, target)
}

func (p *L2Proxy) GetStructEx(ctx context.Context, key string, target interface{}, exp time.Duration) (bool, error) {
	f, err := p.fault("l2.GetStructEx", key)
	if err != nil {
		return false, err
	}
	if p.lost(ctx, f, key) {
		return false, nil
	}
	return p.Inner.GetStructEx(ctx, key, target, exp)
}

func (p *L2Proxy) GetStructs(ctx context.Context, keys []string, targets []interface{}, exp time.Duration) ([]bool, error) {
	f, err := p.fault("l2.GetStructs", strings.Join(keys, ","))
	if err != nil {
		return nil, err
	}
	if p.lost(ctx, f, keys...) {
		return make([]bool, len(keys)), nil
	}
	return p.Inner.GetStructs(ctx, keys, targets, exp)
}

func (p *L2Proxy) Delete(ctx context.Context, keys []string) (bool, error) {
	if _, err := p.fault("l2.Delete", strings.Join(keys, ",")); err != nil {
		return false, err
	}
	return p.Inner.Delete(ctx, keys)
}

func (p *L2Proxy) Ping(ctx context.Context) error {
	if _, err := p.fault("l2.Ping", ""); err != nil {
		return err
	}
	return p.Inner.Ping(ctx)
}

func (p *L2Proxy) Clear(ctx context.Context) error {
	if _, err := p.fault("l2.Clear", ""); err != nil {
		return err
	}
	return p.Inner.Clear(ctx)
}
