package sim

import (
	"context"
	"fmt"
	"io"
	"io/fs"
	"log/slog"
	mrand "math/rand"
	"os"
	"path/filepath"
	"strings"
	"sync"
	"time"

	"github.com/google/uuid"
	retry "github.com/sethvargo/go-retry"
	"github.com/sharedcode/sop"
	"github.com/sharedcode/sop/cache"
	"github.com/sharedcode/sop/common"
	sopfs "github.com/sharedcode/sop/fs"
)

// World binds one Sim to the process-wide seams of sop. Only one World may be installed
// in a process at a time.
type World struct {
	S   *Sim
	Dir string // run directory (under /dev/shm)

	inner       sop.L2Cache // the real in-memory L2 of the current incarnation
	Proxy       *L2Proxy
	Incarnation int

	// PassiveDownPrefix: every file op whose path has this prefix fails with EIO.
	PassiveDownPrefix string
	// PassiveMode refines it: "" = every op fails; "count" = count the ops only; "at" = the op
	// number PassiveFailAt fails (and all later ones when PassiveStay is set).
	PassiveMode       string
	PassiveFailAt     int
	PassiveStay       bool
	PassiveOps        int
	PassiveFired      int
	PassiveFailedPath string
	PassiveFailedOp   string
	OnBlockWrite      func(name string, offset int64, block []byte, ft *FaultSpec)
	OnLock            func(op string, keys []*sop.LockKey, names []string, ok bool, err error)

	L1Min, L1Max int
	ShardCap     int

	slogCount *countingHandler
}

var installMu sync.Mutex
var installed *World

type countingHandler struct {
	w *World
}

func (h *countingHandler) Enabled(_ context.Context, l slog.Level) bool { return l >= slog.LevelInfo }
func (h *countingHandler) Handle(_ context.Context, r slog.Record) error {
	m := r.Message
	// probes derived from sop's own log messages
	for _, p := range probePatterns {
		if strings.Contains(m, p.sub) {
			h.w.S.Probes[p.name]++
		}
	}
	if os.Getenv("VERIF_SLOG") != "" {
		fmt.Fprintf(os.Stderr, "[slog %s] %s\n", r.Level, m)
	}
	return nil
}
func (h *countingHandler) WithAttrs([]slog.Attr) slog.Handler { return h }
func (h *countingHandler) WithGroup(string) slog.Handler      { return h }

var probePatterns = []struct{ sub, name string }{
	{"priority rollback check(sweep mode)", "startup_sweep"},
	{"doing scheduled priority rollback check", "scheduled_priority_rollback"},
	{"restoring", "restore"},
	{"gave up", "retry_gave_up"},
	{"failover", "failover"},
	{"reconstruct", "ec_reconstruct"},
	{"commit failed", "commit_failed_log"},
}

// NewWorld creates the run directory and installs every seam.
func NewWorld(s *Sim, baseDir string) (*World, error) {
	installMu.Lock()
	defer installMu.Unlock()
	if installed != nil {
		return nil, fmt.Errorf("sim: a World is already installed")
	}
	if err := os.MkdirAll(baseDir, 0o755); err != nil {
		return nil, err
	}
	w := &World{S: s, Dir: baseDir}
	s.StripPrefix = append(s.StripPrefix, baseDir)
	w.install()
	installed = w
	return w, nil
}

func (w *World) install() {
	s := w.S
	sop.Now = func() time.Time { return s.Now() }
	sop.SimSleepHook = func(ctx context.Context, d time.Duration) { s.Sleep(ctx, d) }
	sop.SimRetryHook = func(ctx context.Context, task func(ctx context.Context) error, gaveUp func(ctx context.Context)) error {
		b := &simBackoff{s: s, ctx: ctx, a: sop.RetryStartDuration, b: sop.RetryStartDuration}
		if err := retry.Do(ctx, retry.WithMaxRetries(5, b), task); err != nil {
			s.Probe("retry_gave_up")
			if gaveUp != nil {
				gaveUp(ctx)
			}
			return err
		}
		return nil
	}
	sop.SimInlineTasks = true
	sop.SimPermHook = func(n int) []int { return s.Perm(n) }
	sop.SetJitterRNG(mrand.New(mrand.NewSource(int64(s.Cfg.Seed))))
	uuid.SetRand(&prngReader{r: mrand.New(mrand.NewSource(int64(s.Cfg.Seed) ^ 0x5eed))})
	sopfs.SimNewFileIOHook = func(code sop.ErrorCode) sopfs.FileIO {
		return &simFileIO{w: w, real: sopfs.SimRealFileIO(code), code: code}
	}
	sopfs.DirectIOSim = &simDirectIO{w: w}
	sopfs.SimOsCreate = w.osCreate
	sopfs.SimOsOpen = w.osOpen
	sopfs.SimOsRemove = w.osRemove
	sopfs.SimTLogAddHook = w.tlogAdd
	sop.RegisterL2CacheFactory(sop.InMemory, func(sop.TransactionOptions) sop.L2Cache {
		return w.Proxy
	})
	w.slogCount = &countingHandler{w: w}
	slog.SetDefault(slog.New(w.slogCount))
	w.resetVolatile()
}

type simBackoff struct {
	s    *Sim
	ctx  context.Context
	a, b time.Duration
}

// Next performs the (simulated) wait itself and then asks go-retry for a zero real delay.
func (b *simBackoff) Next() (time.Duration, bool) {
	d := b.a
	b.a, b.b = b.b, b.a+b.b
	b.s.Sleep(b.ctx, d)
	return 0, false
}

type prngReader struct{ r *mrand.Rand }

func (p *prngReader) Read(b []byte) (int, error) { return p.r.Read(b) }

// resetVolatile drops everything a process would lose when it dies.
func (w *World) resetVolatile() {
	if w.ShardCap > 0 {
		cache.DefaultInMemoryCacheShardCapacity = w.ShardCap
	}
	if w.L1Max > 0 {
		cache.DefaultMinCapacity, cache.DefaultMaxCapacity = w.L1Min, w.L1Max
		cache.DefaultStandaloneMinCapacity, cache.DefaultStandaloneMaxCapacity = w.L1Min, w.L1Max
	}
	w.inner = cache.NewL2InMemoryCache()
	w.Proxy = &L2Proxy{S: w.S, Inner: w.inner, OnLock: w.OnLock}
	sop.SimResetL2Instances()
	cache.SimResetProcessState()
	common.SimResetProcessState()
	sopfs.SimResetProcessState()
}

// Restart simulates a process restart: cold caches, no locks, globals reset. Durable
// state (the files under Dir) is untouched.
func (w *World) Restart() {
	w.Incarnation++
	w.S.logEvent(nil, "restart", fmt.Sprintf("incarnation %d", w.Incarnation), "")
	w.resetVolatile()
}

// Close uninstalls the seams and removes the run directory.
func (w *World) Close(keepDir bool) {
	installMu.Lock()
	defer installMu.Unlock()
	sop.Now = time.Now
	sop.SimSleepHook = nil
	sop.SimRetryHook = nil
	sop.SimInlineTasks = false
	sop.SimPermHook = nil
	sopfs.SimNewFileIOHook = nil
	sopfs.DirectIOSim = nil
	sopfs.SimOsCreate = os.Create
	sopfs.SimOsOpen = os.Open
	sopfs.SimOsRemove = os.Remove
	sopfs.SimTLogAddHook = nil
	installed = nil
	if !keepDir {
		os.RemoveAll(w.Dir)
	}
}

// passiveDownRead: reads only fail while the passive drive is wholly down.
func (w *World) passiveDownRead(path string) bool {
	return w.PassiveDownPrefix != "" && strings.HasPrefix(path, w.PassiveDownPrefix) && (w.PassiveMode == "" || (w.PassiveMode == "at" && w.PassiveStay && w.PassiveFired > 0))
}

func (w *World) passiveDownOp(kind, path string) bool {
	if w.passiveDown(path) {
		w.PassiveFailedOp = kind
		return true
	}
	return false
}

func (w *World) passiveDown(path string) bool {
	if w.PassiveDownPrefix == "" || !strings.HasPrefix(path, w.PassiveDownPrefix) {
		return false
	}
	switch w.PassiveMode {
	case "count":
		w.PassiveOps++
		return false
	case "at":
		w.PassiveOps++
		if w.PassiveOps == w.PassiveFailAt || (w.PassiveStay && w.PassiveOps > w.PassiveFailAt) {
			w.PassiveFired++
			w.PassiveFailedPath = path
			return true
		}
		return false
	}
	return true
}

// InnerL2 exposes the real cache behind the proxy (for forced evictions by the harness).
func (w *World) InnerL2() sop.L2Cache { return w.inner }

// Snapshot copies the durable state to dst (used by enumerating checks).
func (w *World) Snapshot(dst string) error { return CopyTree(w.Dir, dst) }

// Restore replaces the durable state by the snapshot at src.
func (w *World) Restore(src string) error {
	ents, _ := os.ReadDir(w.Dir)
	for _, e := range ents {
		os.RemoveAll(filepath.Join(w.Dir, e.Name()))
	}
	return CopyTree(src, w.Dir)
}

// CopyTree copies a directory tree preserving mtimes.
func CopyTree(src, dst string) error {
	return filepath.WalkDir(src, func(p string, d fs.DirEntry, err error) error {
		if err != nil {
			return err
		}
		rel, _ := filepath.Rel(src, p)
		target := filepath.Join(dst, rel)
		if d.IsDir() {
			return os.MkdirAll(target, 0o755)
		}
		in, err := os.Open(p)
		if err != nil {
			return err
		}
		defer in.Close()
		out, err := os.Create(target)
		if err != nil {
			return err
		}
		if _, err := io.Copy(out, in); err != nil {
			out.Close()
			return err
		}
		out.Close()
		if fi, err := d.Info(); err == nil {
			os.Chtimes(target, fi.ModTime(), fi.ModTime())
		}
		return nil
	})
}

// ListFiles returns every regular file under Dir (relative paths, sorted by WalkDir).
func (w *World) ListFiles() []string {
	var r []string
	filepath.WalkDir(w.Dir, func(p string, d fs.DirEntry, err error) error {
		if err == nil && !d.IsDir() {
			rel, _ := filepath.Rel(w.Dir, p)
			r = append(r, rel)
		}
		return nil
	})
	return r
}
