package sim

import (
	"context"
	"fmt"
	"os"
	"path/filepath"
	"syscall"

	"github.com/sharedcode/sop"
	"github.com/sharedcode/sop/fs"
)

// errFor maps a fault kind to the OS error a failing disk would return.
func errFor(kind, op, path string) error {
	var e syscall.Errno
	switch kind {
	case "eio", "err":
		e = syscall.EIO
	case "enospc":
		e = syscall.ENOSPC
	case "eacces":
		e = syscall.EACCES
	default:
		return nil
	}
	return &os.PathError{Op: op, Path: path, Err: e}
}

// IsMutation reports whether an op kind changes durable state.
func IsMutation(kind string) bool {
	switch kind {
	case "fio.WriteFile", "fio.Remove", "fio.RemoveAll", "fio.MkdirAll", "dio.WriteAt", "dio.Create",
		"os.Create", "os.Remove", "tlog.Add":
		return true
	}
	return false
}

// simFileIO is the FileIO every fs component gets while the simulator is installed.
type simFileIO struct {
	w    *World
	real fs.FileIO
	code sop.ErrorCode
}

func (f *simFileIO) wrap(err error) error {
	if err != nil && sop.IsFailoverQualifiedIOError(err) {
		return sop.Error{Code: f.code, Err: err}
	}
	return err
}

func (f *simFileIO) touch(path string) {
	t := f.w.S.Now()
	os.Chtimes(path, t, t)
}

func (f *simFileIO) WriteFile(ctx context.Context, name string, data []byte, perm os.FileMode) error {
	ft := f.w.S.Op("fio.WriteFile", name)
	if ft != nil {
		switch ft.Kind {
		case "torn", "short":
			n := int(ft.Arg)
			if n > len(data) {
				n = len(data)
			}
			if n < 0 {
				n = 0
			}
			f.real.WriteFile(ctx, name, data[:n], perm)
			f.touch(name)
			if ft.Kind == "torn" {
				f.w.S.CrashNode(f.w.S.Cur().Node)
			}
			return f.wrap(errFor("eio", "write", name))
		case "crash_after":
			err := f.real.WriteFile(ctx, name, data, perm)
			f.touch(name)
			_ = err
			f.w.S.CrashNode(f.w.S.Cur().Node)
		default:
			if err := errFor(ft.Kind, "write", name); err != nil {
				return f.wrap(err)
			}
		}
	}
	if f.w.passiveDownOp("write", name) {
		return f.wrap(errFor("eio", "write", name))
	}
	err := f.real.WriteFile(ctx, name, data, perm)
	if err == nil {
		f.touch(name)
	}
	return err
}

func (f *simFileIO) ReadFile(ctx context.Context, name string) ([]byte, error) {
	if ft := f.w.S.Op("fio.ReadFile", name); ft != nil {
		if err := errFor(ft.Kind, "read", name); err != nil {
			return nil, f.wrap(err)
		}
	}
	if f.w.passiveDownRead(name) {
		return nil, f.wrap(errFor("eio", "read", name))
	}
	return f.real.ReadFile(ctx, name)
}

func (f *simFileIO) Remove(ctx context.Context, name string) error {
	if ft := f.w.S.Op("fio.Remove", name); ft != nil {
		if ft.Kind == "crash_after" {
			f.real.Remove(ctx, name)
			f.w.S.CrashNode(f.w.S.Cur().Node)
		}
		if err := errFor(ft.Kind, "remove", name); err != nil {
			return f.wrap(err)
		}
	}
	if f.w.passiveDownOp("remove", name) {
		return f.wrap(errFor("eio", "remove", name))
	}
	return f.real.Remove(ctx, name)
}

func (f *simFileIO) Stat(ctx context.Context, path string) (os.FileInfo, error) {
	if ft := f.w.S.Op("fio.Stat", path); ft != nil {
		if err := errFor(ft.Kind, "stat", path); err != nil {
			return nil, f.wrap(err)
		}
	}
	return f.real.Stat(ctx, path)
}

func (f *simFileIO) Exists(ctx context.Context, path string) bool {
	f.w.S.Op("fio.Exists", path)
	return f.real.Exists(ctx, path)
}

func (f *simFileIO) RemoveAll(ctx context.Context, path string) error {
	if ft := f.w.S.Op("fio.RemoveAll", path); ft != nil {
		if ft.Kind == "crash_after" {
			f.real.RemoveAll(ctx, path)
			f.w.S.CrashNode(f.w.S.Cur().Node)
		}
		if err := errFor(ft.Kind, "removeall", path); err != nil {
			return f.wrap(err)
		}
	}
	if f.w.passiveDownOp("removeall", path) {
		return f.wrap(errFor("eio", "removeall", path))
	}
	return f.real.RemoveAll(ctx, path)
}

func (f *simFileIO) MkdirAll(ctx context.Context, path string, perm os.FileMode) error {
	if ft := f.w.S.Op("fio.MkdirAll", path); ft != nil {
		if ft.Kind == "crash_after" {
			f.real.MkdirAll(ctx, path, perm)
			f.w.S.CrashNode(f.w.S.Cur().Node)
		}
		if err := errFor(ft.Kind, "mkdir", path); err != nil {
			return f.wrap(err)
		}
	}
	if f.w.passiveDownOp("mkdir", path) {
		return f.wrap(errFor("eio", "mkdir", path))
	}
	return f.real.MkdirAll(ctx, path, perm)
}

func (f *simFileIO) ReadDir(ctx context.Context, dir string) ([]os.DirEntry, error) {
	if ft := f.w.S.Op("fio.ReadDir", dir); ft != nil {
		if err := errFor(ft.Kind, "readdir", dir); err != nil {
			return nil, f.wrap(err)
		}
	}
	return f.real.ReadDir(ctx, dir)
}

// simDirectIO replaces fs.DirectIO (O_DIRECT is not available on tmpfs; buffered I/O on
// 4 KiB aligned blocks is used instead).
type simDirectIO struct {
	w *World
}

func (d *simDirectIO) wrap(err error) error {
	if err != nil && sop.IsFailoverQualifiedIOError(err) {
		return sop.Error{Code: sop.FileIOErrorFailoverQualified, Err: err}
	}
	return err
}

func (d *simDirectIO) Open(ctx context.Context, filename string, flag int, perm os.FileMode) (*os.File, error) {
	kind := "dio.Open"
	if flag&os.O_CREATE != 0 {
		if _, err := os.Stat(filename); err != nil {
			kind = "dio.Create"
		}
	}
	if ft := d.w.S.Op(kind, filename); ft != nil {
		if ft.Kind == "crash_after" {
			if f, err := os.OpenFile(filename, flag, perm); err == nil {
				f.Close()
			}
			d.w.S.CrashNode(d.w.S.Cur().Node)
		}
		if err := errFor(ft.Kind, "open", filename); err != nil {
			return nil, d.wrap(err)
		}
	}
	if d.w.passiveDownOp("open", filename) {
		return nil, d.wrap(errFor("eio", "open", filename))
	}
	return os.OpenFile(filename, flag, perm)
}

func (d *simDirectIO) WriteAt(ctx context.Context, file *os.File, block []byte, offset int64) (int, error) {
	name := file.Name()
	ft := d.w.S.Op("dio.WriteAt", fmt.Sprintf("%s@%d+%d", name, offset, len(block)))
	if d.w.OnBlockWrite != nil {
		d.w.OnBlockWrite(name, offset, block, ft)
	}
	if ft != nil {
		switch ft.Kind {
		case "torn", "short":
			n := int(ft.Arg)
			if n > len(block) {
				n = len(block)
			}
			if n > 0 {
				file.WriteAt(block[:n], offset)
			}
			if ft.Kind == "torn" {
				d.w.S.CrashNode(d.w.S.Cur().Node)
			}
			return n, d.wrap(errFor("eio", "write", name))
		case "crash_after":
			file.WriteAt(block, offset)
			d.w.S.CrashNode(d.w.S.Cur().Node)
		default:
			if err := errFor(ft.Kind, "write", name); err != nil {
				return 0, d.wrap(err)
			}
		}
	}
	if d.w.passiveDownOp("write", name) {
		return 0, d.wrap(errFor("eio", "write", name))
	}
	return file.WriteAt(block, offset)
}

func (d *simDirectIO) ReadAt(ctx context.Context, file *os.File, block []byte, offset int64) (int, error) {
	name := file.Name()
	if ft := d.w.S.Op("dio.ReadAt", fmt.Sprintf("%s@%d", name, offset)); ft != nil {
		if err := errFor(ft.Kind, "read", name); err != nil {
			return 0, d.wrap(err)
		}
	}
	if d.w.passiveDownRead(name) {
		return 0, d.wrap(errFor("eio", "read", name))
	}
	return file.ReadAt(block, offset)
}

func (d *simDirectIO) Close(file *os.File) error {
	return file.Close()
}

func (w *World) osCreate(name string) (*os.File, error) {
	if ft := w.S.Op("os.Create", name); ft != nil {
		if ft.Kind == "crash_after" {
			if f, err := os.Create(name); err == nil {
				f.Close()
			}
			w.S.CrashNode(w.S.Cur().Node)
		}
		if err := errFor(ft.Kind, "open", name); err != nil {
			return nil, err
		}
	}
	if w.passiveDownOp("create", name) {
		return nil, errFor("eio", "open", name)
	}
	f, err := os.Create(name)
	if err == nil {
		t := w.S.Now()
		os.Chtimes(name, t, t)
	}
	return f, err
}

func (w *World) osOpen(name string) (*os.File, error) {
	if ft := w.S.Op("os.Open", name); ft != nil {
		if err := errFor(ft.Kind, "open", name); err != nil {
			return nil, err
		}
	}
	return os.Open(name)
}

func (w *World) osRemove(name string) error {
	if ft := w.S.Op("os.Remove", name); ft != nil {
		if ft.Kind == "crash_after" {
			os.Remove(name)
			w.S.CrashNode(w.S.Cur().Node)
		}
		if err := errFor(ft.Kind, "remove", name); err != nil {
			return err
		}
	}
	return os.Remove(name)
}

func (w *World) tlogAdd(ctx context.Context, filename string, commitFunction int) (func(), error) {
	ft := w.S.Op("tlog.Add", fmt.Sprintf("%s#%d", filepath.Base(filename), commitFunction))
	after := false
	if ft != nil {
		if ft.Kind == "crash_after" {
			after = true
		} else if err := errFor(ft.Kind, "write", filename); err != nil {
			return nil, err
		}
	}
	return func() {
		t := w.S.Now()
		os.Chtimes(filename, t, t)
		if after {
			w.S.CrashNode(w.S.Cur().Node)
		}
	}, nil
}
