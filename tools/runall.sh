#!/bin/bash
# runs every registered check's quick (or given tier) command and prints a one-line summary each
tier=${1:-quick}
cd /verif
for id in $(python3 -c "import json;print(' '.join(c['property_id'] for c in json.load(open('MANIFEST.json'))['checks']))"); do
  out=$(./check $id $tier 2>&1); rc=$?
  line=$(echo "$out" | grep "^check=$id units" | tail -1)
  echo "rc=$rc $line"
  if [ $rc -ne 0 ]; then echo "$out" | grep "^  class \|INFRA\|SIM-STUCK" | head -20; fi
done
