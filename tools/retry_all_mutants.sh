#!/bin/bash
# re-applies every seeded change to /repo (one at a time), runs the quick tier of the checks that
# meta.json names as catching it, restores /repo, and prints one line per (change, check)
cd /verif
for d in seeded/m*; do
  id=$(basename $d)
  checks=$(python3 -c "import json;m=json.load(open('$d/meta.json'));print(' '.join(m.get('caught_by',{}).keys()))")
  [ -z "$checks" ] && { echo "$id: (no catching check recorded)"; continue; }
  [ -z "$(git -C /repo status --porcelain)" ] || { echo "/repo not clean"; exit 2; }
  if ! git -C /repo apply $PWD/$d/patch.diff 2>/dev/null; then echo "$id: patch no longer applies"; continue; fi
  for c in $checks; do
    out=$(./check $c quick 2>&1); rc=$?
    echo "$id $c rc=$rc $(echo "$out" | grep "^check=$c units" | sed 's/.*violations=/violations=/')"
  done
  git -C /repo checkout -- .
done
