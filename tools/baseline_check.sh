#!/bin/bash
# Runs /repo's own test suite (no overlay, no build tag: nothing of the verification machinery is
# compiled in) and succeeds when every test of the recorded stable-pass set passes.
# usage: tools/baseline_check.sh   (exit 0 = all 2508 stable tests pass)
out=$(mktemp /dev/shm/baseline.XXXXXX.json)
for m in . adapters/cassandra adapters/redis ai incfs infs jsondb search; do
  (cd /repo/$m && gw=$(go env GOWORK 2>/dev/null); MF=""; if [ -z "$gw" ] || [ "$gw" = off ]; then MF="-mod=mod"; fi
   env -u GOFLAGS -u GOSUMDB -u GOTOOLCHAIN go test $MF -json -vet=off -count=1 -timeout 25m ./... ) >> "$out" 2>/dev/null
done
python3 - "$out" <<'PY'
import json,sys
stable=json.load(open('/verif/tools/baseline_stable.json'))
res={}
for l in open(sys.argv[1]):
    try: e=json.loads(l)
    except Exception: continue
    if e.get('Test') and e.get('Action') in ('pass','fail','skip'):
        res[e['Package']+'::'+e['Test']]=e['Action']
bad=[t for t in stable if res.get(t)!='pass']
print("stable tests: %d, passing now: %d"%(len(stable),len(stable)-len(bad)))
for t in bad[:40]: print("NOT PASSING:",t,res.get(t))
sys.exit(1 if bad else 0)
PY
rc=$?
rm -f "$out"
exit $rc
