#!/usr/bin/env python3
"""Regenerates /verif/MANIFEST.json from the table below (kept in one place so the manifest is always valid)."""
import json, sys

EXPL = "exploration"
ENUM = "fault_enumeration"

# id -> (level, technique, text, note, design_ref)
CHECKS = {
 "C01": (EXPL, "deterministic simulation: seeded programs + PRNG-placed I/O/lock faults, all-or-nothing oracle vs KV model",
         "Seeded search over generated multi-store transactions (every store option) with one injected I/O, lock or lost-cache fault at a PRNG-chosen intercepted call of the subject; a warm and a cold observer must read S0 or S0+W for all stores jointly, matching the Commit/Rollback result. Sampling, not proof.",
         "Trusted: the simulator (scheduler, simulated disk = real files on tmpfs behind intercepted FileIO/DirectIO, in-memory L2 behind a proxy), the KV model, the observer using sop's own read path. Faults are injected above fs.retryIO (= error that persisted after retries).",
         "7/C01"),
 "C17": (EXPL, "deterministic simulation (single task): seeded operation sequences vs ordered multiset/map reference model, call by call",
         "Seeded sequential programs through the public infs API on the simulated disk, every return value, Count and scan compared with an ordered multiset/map model; slot length 2..64, unique/duplicate, load balancing on/off, cold restarts and rolled-back transactions in between. Decides the persisted instantiation; inmemory.Range/RangeDesc iterators are pure and not covered.",
         "Trusted: the reference model (checks/model.go), the simulator. No schedule dimension: one task; the simulator contributes the simulated disk, cold restarts and seeded generation/shrinking.",
         "7/C17"),
 "C18": (EXPL, "deterministic simulation (single task): seeded probe/range programs vs ordered multiset model",
         "Seeded sequential programs mixing writes with Find(first)/FindInDescendingOrder/FindWithID and ascending/descending range scans started from probes that may miss; the items visited must be exactly the model's range, the cursor must sit on the first/last/requested duplicate.",
         "Trusted: the reference model, the simulator; range scans are driven the way a caller would (step once if the cursor stopped before/after the range start).",
         "7/C17"),
 "C19": (EXPL, "deterministic simulation (single task): seeded programs x storage options vs in-memory model, cold reopen",
         "Seeded sequential programs over the four value placements, three cache-duration settings, slot lengths 2..32, value sizes 0 B..1.1 MB, random batching into transactions and cold restarts; every read and the final cold ordered (key,value) dump must equal the model.",
         "Trusted: the reference model, the simulator (simulated disk = real files on tmpfs).",
         "7/C19"),
 "C04": (EXPL, "deterministic simulation: seeded scheduler interleaves 2-3 writer transactions at every intercepted cache/file operation; union oracle",
         "Seeded search over interleavings (PCT and sticky random walk over ~300 yield points per commit) of 2-3 writers with disjoint key sets on small-slot seeded stores, fault-free, fair, maxTime 15 simulated minutes: every Commit must return nil and warm/cold dumps must equal the union. Bounded liveness is judged only in this fault-free configuration.",
         "Trusted: simulator, KV model. One OS process; transactions are goroutines of one simulated process sharing the L1/L2 caches (as in production standalone mode).",
         "7/C04"),
 "C02": (EXPL, "deterministic simulation: seeded interleavings of 2-4 transactions; recorded history checked for serializability with porcupine against a KV model",
         "Seeded search over interleavings of 2-4 concurrent transactions (writers, ForReading readers, rollbacks) on overlapping keys; the history of committed transactions (every observed value/found/count, plus the final warm and cold dump) must be explained by some serial order (porcupine, one operation per transaction). Violations are classed by the weakest relaxation that explains them (count-only, absence-results-only, positive reads/writes).",
         "Trusted: simulator, the sequential KV model used as porcupine step function, porcupine v1.3.0. Histories <= 4 transactions x 5 calls; Unknown (timeout) is inconclusive, never reported. Separate OS processes / Redis mode not covered (single simulated process, in-memory L2).",
         "7/C02"),
 "C03": (EXPL, "deterministic simulation: targeted pause schedules + fault-failed commits; unique-token value attribution oracle",
         "Seeded and targeted schedules (writer paused at a chosen step of its body/commit while a reader runs to completion), rollbacks and injected commit failures; every value read is attributed to its writer by a unique token and flagged iff the writer never commits or had not invoked Commit yet; afterwards no write of a non-committed transaction may be visible.",
         "Trusted: simulator, token attribution (values are unique per run). Reads during an in-flight commit that eventually succeeds are not judged. Count() visibility is judged by C02/C06, not here.",
         "7/C03"),
 "C05": (EXPL, "deterministic simulation: seeded interleavings of concurrent Add/AddIfNotExist/Upsert/UpdateKey on overlapping keys; duplicate-key scan oracle",
         "Seeded interleavings of 2-4 transactions inserting/upserting the same keys of unique stores, including first commits into an empty store; final warm and cold ordered scans must contain no two equal adjacent keys.",
         "Trusted: simulator, the scan through sop's own read path.",
         "7/C05"),
 "C06": (EXPL, "deterministic simulation: concurrent add/remove histories with rollbacks and injected commit failures; Count() vs scan oracle",
         "Seeded concurrent add/remove-heavy histories with commits, rollbacks and 0-2 injected I/O/lock faults; at quiescence Count() of a fresh warm and a fresh cold transaction must equal the number of items the ordered scan returns, per store.",
         "Trusted: simulator. No recovery/maintenance pass is given before the comparison (maintenance is unreachable through Begin, see DESIGN.md section 9).",
         "7/C06"),
 "C07": (ENUM, "deterministic simulation + systematic single-fault enumeration: profile run lists every intercepted call of the subject, one run per (position, error kind)",
         "For each sampled program (new store, new root, splits, updates/removes, out-of-node values, two stores) every intercepted call made by the subject in its body, Commit and rollback is failed once with every applicable error kind; judged: Commit result vs warm+cold dumps (never a mixture), Count, and a fault-free immediate retry that must commit within 60 simulated seconds (no waiting for an expiry). Exhaustive per sampled program for single faults; programs are sampled.",
         "Trusted: simulator, KV model. Faults are injected above fs.retryIO (an error that persisted after sop's retries). Pairs of faults are not enumerated. 'Commit reports an error' is enforced as 'an error is reported whenever the changes did not all take effect' (a failure sop absorbs may end in success).",
         "7/C07"),
 "C08": (ENUM, "deterministic simulation + systematic crash-point enumeration: every durable mutation inside Commit x {before, after, torn prefix lengths}, restart, recovery under an advanced simulated clock",
         "For each sampled program every durable mutation of the commit (blob files, registry blocks incl. torn blocks at every 512-byte boundary, store metadata files, transaction and priority logs) is a crash point, in three variants (process dies before / right after / in the middle of the write). After a cold restart transactions run at +0, +6 min, +75 min, +2 h 10 min and +5 h of simulated time; stores must stay readable at all times, show S0 or S0+W jointly once the recovery window has passed, keep Count consistent, and an unrelated store must stay writable. Exhaustive per sampled program.",
         "Trusted: simulator; crash = tasks never resumed + volatile state (caches, locks, process globals) dropped inside one OS process; files survive exactly as written (no lost directory entries, writes other than the torn one are atomic). A half-applied state is tolerated until the last recovery observation (the property grants the documented waiting periods).",
         "7/C08"),
 "C09": (EXPL, "deterministic simulation: sampled crash points + later transactions under an advanced simulated clock; bounded-liveness oracle on log files and writer success",
         "Crash points sampled from C08's space; after restart, transactions at the documented thresholds with time advanced. 8.5 simulated hours after the crash no transaction/priority log of the crashed writer may remain and a writer touching the same keys must commit.",
         "Trusted: simulator. Standalone mode only (in-memory L2: a dead process's locks vanish with it); the clustered/Redis variant is not covered. Liveness bound stated in simulated hours, not implementation constants.",
         "7/C09"),
 "C10": (EXPL, "deterministic simulation: seeded histories with injected failures, crashes and recovery; raw structural walk + cold API traversal as oracle",
         "Seeded histories (commits, rollbacks, concurrency, injected I/O/cache failures, crashes with restart, then maintenance at the documented thresholds) over all four value placements; oracle = raw walk of registry segment files and node blobs from every store root (every reachable node/value blob must exist and parse) plus a cold full traversal through the public API.",
         "Trusted: simulator, the raw walker (decodes registry blocks with sop's public handle decoder, node blobs as JSON). Probe 'items with ValueNeedsFetch on disk' is reported: where it stays 0 the out-of-node half is vacuous for that run.",
         "7/C10"),
 "C11": (EXPL, "deterministic simulation: seeded crash-free histories with injected commit failures + maintenance under an advanced clock; directory listing vs reachable set",
         "Seeded crash-free histories (commits, rollbacks, injected commit failures, occasional concurrency) followed by 8.5 simulated hours of transactions at the documented thresholds; oracle = raw audit: blob files == reachable blobs, registry entries == reachable logical ids, no .log/.plg/.cow files.",
         "Trusted: simulator, raw walker. Dangling inactive ids inside live handles are not counted as entries.",
         "7/C11"),
 "C12": (EXPL, "deterministic simulation: create/abort/fail programs with injected faults, seeded interleavings of same-name creators, remove-and-recreate sequences; GetStores/OpenBtree/StoreInfo/dump oracle",
         "Three program shapes (create+populate then commit/rollback/fail by an injected fault; 2-3 concurrent creators of one name under seeded schedules; create, populate, RemoveBtree, re-create with different options across restarts) judged through GetStores, OpenBtree, StoreInfo, Count and full dumps of warm and cold observers.",
         "Trusted: simulator. Single-folder layout only (replicated layout is exercised by C27's machinery, not here).",
         "7/C12"),
 "C13": (EXPL, "deterministic simulation (single task): adversarial store names/descriptions x option combinations x commit histories, cold reopen; StoreInfo field-by-field comparison",
         "Seeded store names/descriptions from an adversarial dictionary (metadata field names, JSON fragments, unicode, long), all option combinations, 1-12 commits with cold reopen; StoreInfo must equal the creation-time one in every creation option, Count and contents must equal the model.",
         "Trusted: simulator, model. The harness inspects storeinfo.txt before opening a store so that a corrupted slot_length is reported instead of exhausting memory.",
         "7/C13"),
 "C14": (EXPL, "deterministic simulation (single task): seeded lifecycle call sequences x store operations x transaction modes against a lifecycle state machine, cold read-back of contents and store list",
         "Seeded sequences of 3-15 calls (Begin, Commit, Rollback, Phase1Commit, Phase2Commit, Close, OpenBtree, NewBtree, Add, Update, Upsert, Remove, Find, Get) on one transaction per mode; a state machine decides which calls may report success; afterwards a cold process reads the store and the store list, which must show changes only from a writer that committed.",
         "Trusted: simulator, the lifecycle state machine of the check. Calls made between Phase1Commit and Phase2Commit are not judged (the property does not say whether they belong to the commit). No schedule dimension: the property quantifies over programs; the simulator supplies the disk, the cold restart and the seeded sampling.",
         "7/C14"),
 "C15": (EXPL, "deterministic simulation: 2-4 contending writers with opposite key orders under seeded schedules, simulated clock, lock holders stalled by the simulator; commit-duration, no-livelock and follow-up-commit oracle",
         "2-4 concurrent writers over 4-8 overlapping keys in 1-2 stores (even/odd writers in opposite key order), maxTime 2 s..2 min, caller deadlines 1..300 s, one writer stalled for 1.5 s..10 min at a PRNG-chosen call of its commit in half of the runs. Every non-stalled Commit must return within min(deadline, maxTime) + max(5 s, 25%) of simulated time, the scheduler step cap must not be hit, and a follow-up transaction on the same keys must commit within 30 simulated seconds.",
         "Trusted: simulator (every timer and deadline of the instrumented packages reads the simulated clock). A lock holder that DIES is only covered as a whole-process crash by C08/C09 (standalone mode has one process); the clustered variant with a separate lock service is not covered. The allowance is a stated bound of the check, not an implementation constant.",
         "7/C15"),
 "C16": (ENUM, "deterministic simulation + failure-position enumeration: scripted two-phase participants attached to a real SOP transaction, a failure at every participant method and at every intercepted call of SOP's own commit/rollback; call-log and cold-read oracle",
         "For 0..3 participants, two value placements and both client endings: every single participant failure (Begin/Phase1/Phase2/Rollback), a disk or cache fault at every call position of SOP's Begin/body/Phase1/Phase2/Rollback (every 3rd in the quick tier), plus sampled combinations of up to 3 participant failures and 2 SOP faults. A participant Phase2 call requires all Phase1 to have succeeded, Commit to return nil and the cold-read store to hold the committed state; otherwise the store must hold the previous state and every participant must have received a Rollback call.",
         "Trusted: simulator, the scripted participants. Single-failure positions are exhaustive in the thorough tier for the one transaction body used (update + remove + two adds on a 5-item store); multi-failure combinations are sampled. No schedule dimension (one client task).",
         "7/C16"),
 "C20": (EXPL, "deterministic simulation: writer/reader rounds under seeded schedules with forced cache evictions, lost entries, small capacities, clock advances; real-time-order oracle vs KV model",
         "Rounds of one writer plus concurrent readers, followed by readers that begin only after the writer's Commit returned; L1/L2 capacities from 1 entry to defaults, cache durations none..long with TTL, injected lost/missing L2 entries, clock advances across expiries, optional restart (cold caches). Every Get/scan/Count of an after-reader must equal the latest committed state.",
         "Trusted: simulator, KV model. Standalone caching only (one simulated process, in-memory L2 behind the proxy); the clustered Redis variant is not covered by this check (the Redis client is exercised by C28 against a stub). A task that spins inside sop is reported as a hang-class violation.",
         "7/C20"),
 "C27": (EXPL, "deterministic simulation: seeded sequential histories over an active and a passive store folder with a simulator-chosen failing passive-side write, failover, reinstate; model comparison through the former passive side by a cold process",
         "Seeded histories of creates, commits, rollbacks, removals and store drops over two store folders (blobs erasure coded 1+1 over two drives), fs.TriggerFailover + cold read of every store, in half of the histories one failing passive-side file operation at a PRNG-chosen position, then infs.ReinstateFailedDrives, further commits and a final failover. Every commit must succeed and the active side equal the model whatever the passive side does; a failed passive write must set FailedToReplicate; after each failover store list, contents and counts equal the model.",
         "Trusted: simulator, map model. Histories run one task at a time (fs.globalReplicationDetailsLocker is held across I/O). A failing open or backup-file removal on the passive side is not required to turn replication off; it is judged by the failover comparison. Only EIO on one operation is injected (no torn passive writes).",
         "7/C27"),
 "C28": (EXPL, "deterministic simulation: seeded interleavings of lock-service calls by several owners with TTL expiry under a simulated clock and full-cache pressure; lock-table model in lockstep",
         "2-4 owners issue Lock/DualLock/Unlock/IsLocked/IsLockedTTL/IsLockedByOthers and releases of keys they do not hold over shared keys, with TTLs 1 s..10 min, simulated sleeps across expiry, shard capacities default/1/2/4 with unrelated entries and colliding unrelated locks; a lock table with simulated time is kept in lockstep and cross-checked after every call (two holders, lock lost before expiry, foreign unlock, IsLocked true for a non-holder).",
         "Trusted: simulator, lock-table model. In-memory lock service only: each L2 call is one atomic scheduler step (sub-call interleavings of the sharded map are not explored); the Redis adapter's locker is NOT covered (no Redis server/stub in this build) - stated limitation.",
         "7/C28"),
 "C21": (EXPL, "deterministic simulation (single task): seeded registry call sequences over ids crafted to collide in block and slot, tiny hash moduli, full blocks and segment overflow; map model + raw segment-file walk",
         "Seeded sequential programs of Add/Update/UpdateNoLocks/Remove/Get through fs.NewRegistry on the simulated disk over ids crafted to share blocks and slots (hash modulus 1-4 or 250, up to 150 ids so blocks fill and overflow into further segment files), with lookups through brand-new registry objects with empty caches; compared with a map model call by call and by a raw walk of the segment files at the end.",
         "Trusted: map model, raw walker (public handle decoder + CRC), simulator. No concurrency dimension. The by-product C24 monitor mentioned in the design was not built.",
         "7/C21"),
 "C22": (ENUM, "deterministic simulation + crash-point enumeration around one registry block write with concurrent reader tasks; old-or-new oracle on lookups and raw block bytes",
         "For sampled populated blocks every durable mutation of one handle update (backup write, block write, backup removal) is a crash point: before, after, and torn at every 512-byte boundary plus arbitrary lengths; 0-2 reader tasks look the block up from the segment file under 3 seeded schedules per variant. After restart every handle must read as its old or (the updated one) its new image, readers must never have seen anything else, and the block must verify.",
         "Trusted: simulator. Abstraction: concurrent block reads/writes are atomic (4 KiB aligned I/O), tearing only happens together with the crash. Exhaustive per sampled block over the listed variants.",
         "7/C22"),
 "C23": (ENUM, "systematic corruption enumeration of a written registry block (bit flips on a stride, bursts, zeroed tails) x backup-file variants x operations, on the simulated disk",
         "For sampled written blocks: single-bit flips over all slots and the checksum trailer, bursts, zeroed tails x {no backup, valid previous image, bad-checksum backup, empty backup} x {Get, Update, UpdateNoLocks, Remove} through a fresh registry: without a valid backup the operation must fail and leave the block bytes unchanged; with one, the restored image is served.",
         "Trusted: simulator, CRC computation. This property has no schedule dimension; the simulator contributes the disk seam, cold restarts and the seeded sampling of blocks. All-zero blocks are valid by design and skipped.",
         "7/C23"),
 "C25": (ENUM, "systematic enumeration of shard damage subsets x damage kinds and of failing shard-write subsets over the real EC blob store on files; exact-bytes / error / no-crash oracle",
         "For (d,p) up to (4,2) and blob sizes incl. sizes not divisible by d: all subsets of shard files x damage kinds (missing, truncations incl. below/at/just above the metadata size, payload and metadata bit flips, PRNG-mixed kinds) and all subsets of failing shard writes; <= p damaged must return the exact bytes, > p an error (never different bytes), a panic or a dead process is a violation, Add must fail iff more than p writes fail.",
         "Trusted: the harness' damage injection on real files. No schedule dimension (damage happens between operations); TaskRunner tasks run inline so a panic inside a shard task is observable; cases with large shards run in a child process so that a codec goroutine panic is reported instead of killing the check.",
         "7/C25"),
 "C26": (ENUM, "systematic enumeration: damage subsets within parity, repairing read, byte comparison of every shard file with the fresh encode, then all subsets of p further failures",
         "Repair enabled: for (d,p) up to (4,2), all damage subsets of size 1..p x damage kinds; after one successful read every shard file must be byte-identical to the originally encoded shard and every subset of p further removed shards must still read back exactly.",
         "Trusted: as C25.",
         "7/C26"),
 "C31": (EXPL, "deterministic simulation (single task): seeded add/update/remove programs over a streaming data store with value sizes from one byte to a megabyte, process restarts; decode-to-the-end comparison with the model and chunk-index probes",
         "Seeded programs of Add / AddIfNotExist / Upsert / Update / UpdateCurrentValue / Remove / RemoveCurrentItem over 1-4 keys with 1-5 values of sizes {1 .. 1 MiB} per entry, one transaction per step, restarts in between; after every step and restart every entry is decoded to the end and must equal the sequence written last, removed entries must not be found and none of their chunk indexes may exist.",
         "Trusted: simulator, model. No schedule or fault dimension (the property quantifies over programs; atomicity of a failed streaming commit is C01/C07's subject); the simulator supplies the disk, the restarts and the seeded sampling. Assumes encoding/json issues one Write per Encode.",
         "7/C31"),
 "C37": (EXPL, "deterministic simulation + trace checking: a monitor on the simulated disk turns registry block writes into handle transitions; traces of concurrent committers (seeded schedules) and of commits crashed at every registry write are checked against the node-version protocol",
         "Implementation traces (task, old handle image, new handle image for every registry slot written) from 2-3 concurrent committers over 1-3 nodes and from commits crashed before/after every registry block write followed by recovery. Checked: at most one successfully committing installer per (node, version); a flip bumps the version by one and activates a complete node blob; after recovery the crashed commit's handles are all post-commit or all pre-commit.",
         "Trusted: simulator, the block decoder (sop's handle marshaler), the engine's commit outcomes. The abstract protocol itself is NOT model-checked here (that half of the property's quantifier belongs to another technique); only implementation traces are checked against its invariants. Leftover reserved ids with an expired timestamp are not judged (reclaimable by design; see C09/C11).",
         "7/C37"),
 "C38": (EXPL, "deterministic simulation: seeded programs that modify returned reference-typed values in place and never write them back, with warm, concurrent (seeded schedules) and cold readers; last-Update-wins oracle",
         "Five reference-carrying value types x four value placements x seeded programs of read / in-place modification (element, map, pointee writes, assignment through Item.Value) / optional unrelated Update / commit, rollback or drop, judged by re-reads in the same transaction, later and concurrent transactions of the same simulated process, and a restarted (cold) process: every read must return the last value passed to Update.",
         "Trusted: simulator, the harness' own deep copies. On the current tree every warm class is a recorded finding (values are shared through Node.CopyTo and the L1 cache), so for warm sharing the check can only report a change of class; what it can still detect are modifications that become durable WITHOUT any later committing writer (class .../no-writer-after, clean on the unchanged tree), lost values and panics.",
         "7/C38"),
}

NOT_APPLICABLE = {
 "C24": "pure function of its input (handle codec round-trip, block-layout arithmetic): no schedule, clock, I/O or fault can change the answer; not a simulation target",
 "C29": "comparator axioms over value triples are a pure function of the inputs; not a simulation target",
 "C30": "the JSON map-key comparers are in-memory functions of two keys (and, for history independence, of the order of earlier calls on one comparer object): no task, clock, I/O or fault takes part, so there is nothing a scheduler or fault plan could vary; not a simulation target",
 "C34": "Authorize/CheckPolicy/ResolveRBACMap are pure decision functions over a finite domain; not a simulation target",
 "C36": "data races are decided by the race detector observing real uncontrolled executions (runtime monitoring); the simulator serialises tasks through channel hand-offs, which are happens-before edges, so it is blind to races by construction",
}

def main():
    props = [json.loads(l)["id"] for l in open("/verif/properties.jsonl")]
    checks = []
    for pid in props:
        if pid not in CHECKS:
            continue
        level, tech, text, note, ref = CHECKS[pid]
        checks.append({
            "property_id": pid,
            "quick_cmd": f"./check {pid} quick",
            "thorough_cmd": f"./check {pid} thorough",
            "evidence_file": f"/verif/evidence/{pid}.json",
            "replay_cmd_template": "./check --replay {path}",
            "engine": "simcheck",
            "level_claimed": {"category": level, "text": text, "design_ref": "DESIGN.md section " + ref},
            "level_note": note,
            "technique": tech,
        })
    na = []
    for pid in props:
        if pid in CHECKS:
            continue
        reason = NOT_APPLICABLE.get(pid, "not claimed yet: no check built for this property in the time available (see DESIGN.md section 7 for the planned design)")
        na.append({"property_id": pid, "reason": reason})
    m = {
        "version": 1,
        "setup_cmd": "./check build",
        "hooks": {
            "guard": "none committed: instrumentation is a `go build -overlay` generated from /repo's working tree by /verif/harness/cmd/simgen at check time; every hook is a nil-checked package variable",
            "enable": "./check build  (simgen -> /verif/.build/overlay-<hash>/overlay.json; go1.26.8 build -overlay ... ./cmd/simcheck)",
            "baseline_off_cmd": "/verif/tools/baseline_check.sh",
            "source_commits": [],
            "add_only": True,
        },
        "engines": [{
            "name": "simcheck", "path": "/verif/harness",
            "serves_properties": [c["property_id"] for c in checks],
            "kind_free_text": "single-process deterministic simulator for sop: cooperative seeded scheduler, simulated clock, intercepted L2 cache/locks, FileIO, DirectIO, transaction log, sleeps, TaskRunner and map iteration order; fault plans, crash/restart, replay files, delta-debugging minimiser",
        }],
        "checks": checks,
        "not_applicable": na,
        "notes": "Genuine defects found by the checks: see /verif/known_findings.json (open = reported as KNOWN-FINDING, fixed = repaired by a fix: commit in /repo) and DESIGN.md section 9.",
    }
    json.dump(m, open("/verif/MANIFEST.json", "w"), indent=1)
    print("MANIFEST.json:", len(checks), "checks,", len(na), "not claimed")

main()
