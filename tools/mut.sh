#!/bin/bash
# mut.sh confirm <wt> <dir> <go test args...>   : demo must FAIL with the change and PASS without it (in the scratch worktree)
# mut.sh try <patch.diff> <check ids...>        : apply to /repo, run the checks' quick tier, undo
set -u
cmd=$1; shift
case $cmd in
confirm)
  wt=$1; dir=$2; shift 2
  cd $wt || exit 2
  git apply --check -R zz_out/patch.diff 2>/dev/null || { echo "patch not applied in $wt"; exit 2; }
  (cd $wt/$dir && go test -vet=off -count=1 "$@" > /tmp/mut_with.txt 2>&1); rc1=$?
  git apply -R zz_out/patch.diff
  (cd $wt/$dir && go test -vet=off -count=1 "$@" > /tmp/mut_without.txt 2>&1); rc2=$?
  git apply zz_out/patch.diff
  echo "with change rc=$rc1 (expect !=0), without rc=$rc2 (expect 0)"
  tail -3 /tmp/mut_with.txt; tail -2 /tmp/mut_without.txt
  ;;
try)
  patch=$1; shift
  [ -z "$(git -C /repo status --porcelain)" ] || { echo "/repo not clean"; exit 2; }
  git -C /repo apply $patch || { echo "patch does not apply"; exit 2; }
  for c in "$@"; do
    out=$(cd /verif && ./check $c quick 2>&1); rc=$?
    echo "== $c rc=$rc $(echo "$out" | grep "^check=$c units" | cut -c1-160)"
    echo "$out" | grep "^  class \|^VIOLATION\|INFRA" | head -8
  done
  git -C /repo checkout -- .
  [ -z "$(git -C /repo status --porcelain)" ] && echo "/repo restored"
  ;;
esac
